//! Glue to the cfg(getong_stateright_verif) hooks in /repo: market event capture and schedule perturbation.
use serde_json::{json, Value};
use stateright::verif::{self, MarketEvent};
use std::cell::RefCell;
use std::sync::atomic::{AtomicU64, Ordering};
use std::sync::{Arc, Mutex};

static EVENTS: Mutex<Vec<MarketEvent>> = Mutex::new(Vec::new());
/// a market that never comes to rest (a worker spinning on it) must not exhaust memory: later events are dropped (the
/// run is then reported as hung by its driver anyway)
const MAX_EVENTS: usize = 300_000;

/// Start capturing market events (process-wide; capture runs must not overlap).
pub fn start_capture() {
    EVENTS.lock().unwrap().clear();
    verif::set_tracer(Some(Arc::new(|e: MarketEvent| {
        let mut evs = EVENTS.lock().unwrap();
        if evs.len() < MAX_EVENTS {
            evs.push(e);
        }
    })));
}

/// Stop capturing; returns the events of the FIRST market created during the capture, in lock order.
pub fn stop_capture() -> Vec<Value> {
    verif::set_tracer(None);
    let mut evs = std::mem::take(&mut *EVENTS.lock().unwrap());
    evs.sort_by_key(|e| e.seq);
    let market = match evs.iter().find(|e| e.ev == "New") {
        Some(e) => e.market,
        None => return vec![],
    };
    evs.into_iter()
        .filter(|e| e.market == market)
        .map(|e| {
            json!({"ev": e.ev, "thread": e.thread, "arg1": e.arg1, "arg2": e.arg2, "open": e.open,
                   "thread_count": e.thread_count, "open_count": e.open_count, "batches": e.batches})
        })
        .collect()
}

static PERTURB: AtomicU64 = AtomicU64::new(0);
thread_local! {
    static RNG: RefCell<u64> = const { RefCell::new(0) };
}

/// Installs (seed != 0) or removes (seed == 0) a seeded perturbation at the yield points of the worker loops.
pub fn set_perturb(seed: u64) {
    PERTURB.store(seed, Ordering::SeqCst);
    if seed == 0 {
        verif::set_yield_hook(None);
        return;
    }
    verif::set_yield_hook(Some(Arc::new(|_site: &'static str| {
        let seed = PERTURB.load(Ordering::Relaxed);
        let r = RNG.with(|c| {
            let mut x = *c.borrow();
            if x == 0 {
                // per-thread stream derived from the seed and the thread name
                let name = std::thread::current().name().unwrap_or("").to_string();
                x = seed ^ 0x9E37_79B9_7F4A_7C15;
                for b in name.bytes() {
                    x = x.wrapping_mul(0x100_0000_01B3) ^ b as u64;
                }
                if x == 0 {
                    x = 1;
                }
            }
            x ^= x << 13;
            x ^= x >> 7;
            x ^= x << 17;
            *c.borrow_mut() = x;
            x
        });
        match r % 10 {
            0..=4 => {}
            5 | 6 => std::thread::yield_now(),
            7 | 8 => std::thread::sleep(std::time::Duration::from_micros(30 + (r >> 8) % 100)),
            _ => std::thread::sleep(std::time::Duration::from_micros(300 + (r >> 8) % 700)),
        }
    })));
}
