//! Glue to the cfg(getong_stateright_verif) hooks in /repo (filled in when the hooks exist).
pub fn set_perturb(_seed: u64) {}
