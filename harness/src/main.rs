mod actors;
mod direct;
mod algebra;
mod explorer;
mod graphs;
mod hooks;
mod market;
mod register_h;
mod wo_register_h;
mod spawnrt;
mod testers;

fn arg(args: &[String], name: &str) -> Option<String> {
    args.iter().position(|a| a == name).and_then(|i| args.get(i + 1).cloned())
}

fn main() {
    let args: Vec<String> = std::env::args().collect();
    let cmd = args.get(1).map(|s| s.as_str()).unwrap_or("");
    let inp = arg(&args, "--in").unwrap_or_default();
    let out = arg(&args, "--out").unwrap_or_default();
    let par: usize = arg(&args, "--par").and_then(|s| s.parse().ok()).unwrap_or(1);
    match cmd {
        "graphs" => graphs::main_graphs(&inp, &out, par),
        "algebra" => algebra::main_algebra(
            &out,
            &arg(&args, "--what").unwrap_or_default(),
            arg(&args, "--l").and_then(|s| s.parse().ok()).unwrap_or(3),
            arg(&args, "--m").and_then(|s| s.parse().ok()).unwrap_or(2),
            arg(&args, "--seed").and_then(|s| s.parse().ok()).unwrap_or(1),
        ),
        "register" => register_h::main_register(&inp, &out),
        "wo_register" => wo_register_h::main_wo_register(&inp, &out),
        "spawn" => spawnrt::main_spawn(&inp, &out),
        "idaddr" => spawnrt::main_idaddr(
            &out,
            arg(&args, "--seed").and_then(|s| s.parse().ok()).unwrap_or(1),
            arg(&args, "--n").and_then(|s| s.parse().ok()).unwrap_or(2000),
        ),
        "explorer" => explorer::main_explorer(&inp, &out),
        "orl_direct" => direct::main_orl_direct(&inp, &out),
        "matches" => graphs::main_matches(&out),
        "market" => market::main_market(&inp, &out),
        "testers" => testers::main_testers(&inp, &out),
        "refobjs" => testers::main_refobjs(
            &out,
            arg(&args, "--values").and_then(|s| s.parse().ok()).unwrap_or(2),
            arg(&args, "--maxlen").and_then(|s| s.parse().ok()).unwrap_or(3),
        ),
        "actors" => actors::main_actors(&inp, &out, args.iter().any(|a| a == "--real-counts")),
        _ => {
            eprintln!("usage: vh <graphs> --in F --out F [--par N]");
            std::process::exit(2);
        }
    }
}
