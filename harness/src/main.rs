fn main() { println!("vh"); }
