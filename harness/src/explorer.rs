//! Drives the real Explorer web service (CheckerBuilder::serve), the on-demand checker and the Path API on table
//! graphs and records the answers (C19). Records only; TLC judges against specs/Explorer.tla.

use crate::graphs::{Graph, TableModel};
use serde_json::{json, Value};
use stateright::*;
use std::collections::{HashMap, VecDeque};
use std::io::{BufRead, Read, Write};
use std::net::TcpStream;
use std::sync::atomic::Ordering;
use std::sync::{Arc, Mutex};
use std::time::{Duration, Instant};

fn http(port: u16, method: &str, path: &str) -> (u16, String) {
    for attempt in 0..50 {
        match TcpStream::connect(("127.0.0.1", port)) {
            Ok(mut s) => {
                s.set_read_timeout(Some(Duration::from_secs(20))).ok();
                let req = format!("{} {} HTTP/1.1\r\nHost: localhost\r\nConnection: close\r\nContent-Length: 0\r\n\r\n", method, path);
                if s.write_all(req.as_bytes()).is_err() {
                    continue;
                }
                let mut buf = Vec::new();
                let _ = s.read_to_end(&mut buf);
                let text = String::from_utf8_lossy(&buf).to_string();
                let status = text.split_whitespace().nth(1).and_then(|x| x.parse::<u16>().ok()).unwrap_or(0);
                let body = match text.find("\r\n\r\n") {
                    Some(i) => text[i + 4..].to_string(),
                    None => String::new(),
                };
                // chunked transfer encoding (tiny_http uses it for larger bodies)
                let body = if text.to_ascii_lowercase().contains("transfer-encoding: chunked") { dechunk(&body) } else { body };
                if status != 0 {
                    return (status, body);
                }
            }
            Err(_) => {}
        }
        std::thread::sleep(Duration::from_millis(10 + attempt * 4));
    }
    (0, String::new())
}

fn dechunk(b: &str) -> String {
    let mut out = String::new();
    let mut rest = b;
    loop {
        let Some(i) = rest.find("\r\n") else { break };
        let Ok(n) = usize::from_str_radix(rest[..i].trim(), 16) else { break };
        if n == 0 {
            break;
        }
        let start = i + 2;
        if start + n > rest.len() {
            out.push_str(&rest[start..]);
            break;
        }
        out.push_str(&rest[start..start + n]);
        rest = &rest[(start + n + 2).min(rest.len())..];
    }
    out
}

fn fp_of(node: u32) -> String {
    #[derive(Clone)]
    struct One(u32);
    impl Model for One {
        type State = u32;
        type Action = u16;
        fn init_states(&self) -> Vec<u32> {
            vec![self.0]
        }
        fn actions(&self, _: &u32, _: &mut Vec<u16>) {}
        fn next_state(&self, _: &u32, _: u16) -> Option<u32> {
            None
        }
    }
    Path::from_actions(&One(node), node, Vec::<&u16>::new()).unwrap().encode()
}

/// a port the OS considers free right now (ephemeral range; the listener is closed again, serve() binds it next)
fn next_port() -> u16 {
    let l = std::net::TcpListener::bind(("127.0.0.1", 0)).expect("bind port 0");
    l.local_addr().expect("local addr").port()
}

/// Starts the real Explorer for `model` on a loopback port and returns the port. serve() only returns (by panicking) when it could not
/// bind (another process - e.g. a second harness run - took the port in between): then another port is tried, so that
/// the queries are never answered by somebody else's Explorer.
fn start_explorer(model: &TableModel) -> u16 {
    for _ in 0..20 {
        let port = next_port();
        let failed = Arc::new(std::sync::atomic::AtomicBool::new(false));
        let started = Arc::new(std::sync::atomic::AtomicBool::new(false));
        let (f2, s2, m2) = (Arc::clone(&failed), Arc::clone(&started), model.clone());
        std::thread::Builder::new()
            .name("explorer".into())
            .spawn(move || {
                s2.store(true, Ordering::SeqCst);
                // (serve() unwraps the result of binding: a lost port shows as a panic of this thread)
                let _ = std::panic::catch_unwind(std::panic::AssertUnwindSafe(|| {
                    let _ = m2.checker().threads(1).serve(("127.0.0.1", port));
                }));
                f2.store(true, Ordering::SeqCst);
            })
            .unwrap();
        // wait until it answers (or gave up)
        let t0 = Instant::now();
        let mut up = false;
        while t0.elapsed() < Duration::from_secs(20) && !failed.load(Ordering::SeqCst) {
            if started.load(Ordering::SeqCst) && TcpStream::connect(("127.0.0.1", port)).is_ok() {
                up = true;
                break;
            }
            std::thread::sleep(Duration::from_millis(2));
        }
        // a failed bind shows within microseconds of the start of serve(); give it a moment before trusting the port
        std::thread::sleep(Duration::from_millis(40));
        if up && !failed.load(Ordering::SeqCst) {
            return port;
        }
    }
    panic!("could not start an Explorer instance");
}

/// all action paths (from every init state) up to `depth` actions, following DEFINED transitions (boundary ignored,
/// as the Explorer does); capped
fn exec_paths(m: &TableModel, depth: usize, cap: usize) -> Vec<Vec<u32>> {
    let mut out: Vec<Vec<u32>> = vec![];
    let mut frontier: Vec<Vec<u32>> = m.g.init.iter().map(|s| vec![*s]).collect();
    out.extend(frontier.iter().cloned());
    for _ in 0..depth {
        let mut nf = vec![];
        for p in &frontier {
            for t in m.succs(*p.last().unwrap()) {
                if t != 0 {
                    let mut q = p.clone();
                    q.push(t);
                    nf.push(q);
                }
            }
        }
        out.extend(nf.iter().cloned());
        frontier = nf;
        if out.len() > cap {
            break;
        }
    }
    out.truncate(cap);
    out
}

fn parse_states(body: &str, rev: &HashMap<String, u32>) -> Value {
    match serde_json::from_str::<Value>(body) {
        Ok(Value::Array(items)) => json!(items
            .iter()
            .map(|it| {
                let fp = it.get("fingerprint").and_then(|x| x.as_str()).unwrap_or("");
                json!({"action": it.get("action").and_then(|x| x.as_str()).unwrap_or(""),
                       "has_state": it.get("state").is_some(),
                       "node": rev.get(fp).cloned().unwrap_or(0),
                       "state_text": it.get("state").and_then(|x| x.as_str()).unwrap_or("")})
            })
            .collect::<Vec<_>>()),
        _ => json!("unparsable"),
    }
}

fn decode_path(enc: &str, rev: &HashMap<String, u32>) -> Vec<u32> {
    enc.split('/').map(|f| rev.get(f).cloned().unwrap_or(0)).collect()
}

fn parse_status(body: &str, rev: &HashMap<String, u32>) -> Value {
    match serde_json::from_str::<Value>(body) {
        Ok(v) => {
            let props: Vec<Value> = v["properties"]
                .as_array()
                .map(|a| {
                    a.iter()
                        .map(|p| {
                            let path = p[2].as_str().map(|e| decode_path(e, rev)).unwrap_or_default();
                            json!({"kind": p[0].as_str().unwrap_or("").to_lowercase(), "name": p[1], "has_path": p[2].is_string(), "path": path})
                        })
                        .collect()
                })
                .unwrap_or_default();
            json!({"ok": true, "done": v["done"], "state_count": v["state_count"], "unique_state_count": v["unique_state_count"],
                   "max_depth": v["max_depth"], "properties": props})
        }
        Err(_) => json!({"ok": false, "done": false, "state_count": 0, "unique_state_count": 0, "max_depth": 0, "properties": []}),
    }
}

pub fn explore_one(g: &Graph, depth: usize, rng_seed: u64) -> Value {
    let model = TableModel::new(g.clone());
    let port = start_explorer(&model);
    let mut rev: HashMap<String, u32> = HashMap::new();
    for s in 1..=g.n {
        rev.insert(fp_of(s), s);
    }
    let enc = |p: &[u32]| p.iter().map(|s| fp_of(*s)).collect::<Vec<_>>().join("/");
    // status before anything was requested
    let (c0, b0) = http(port, "GET", "/.status");
    let status0 = parse_status(&b0, &rev);
    // initial states
    let (ci, bi) = http(port, "GET", "/.states");
    let init_view = parse_states(&bi, &rev);
    let mut queries = vec![];
    for p in exec_paths(&model, depth, 60) {
        let url = format!("/.states/{}", enc(&p));
        let (code, body) = http(port, "GET", &url);
        queries.push(json!({"path": p, "valid_by_construction": true, "code": code, "items": if code == 200 { parse_states(&body, &rev) } else { json!([]) }}));
    }
    // sequences that denote no execution, and syntactic variants
    let mut x = rng_seed | 1;
    let mut next = |n: u32| {
        x ^= x << 13;
        x ^= x >> 7;
        x ^= x << 17;
        (x % n as u64) as u32
    };
    let mut raw = vec![];
    for _ in 0..12 {
        let len = 1 + next(3) as usize;
        let p: Vec<u32> = (0..len).map(|_| 1 + next(g.n)).collect();
        let url = format!("/.states/{}", enc(&p));
        let (code, body) = http(port, "GET", &url);
        queries.push(json!({"path": p, "valid_by_construction": false, "code": code, "items": if code == 200 { parse_states(&body, &rev) } else { json!([]) }}));
    }
    let some_init = g.init.first().cloned().unwrap_or(1);
    for (label, url) in [
        ("unknown_fp", format!("/.states/{}/12345", fp_of(some_init))),
        ("zero", "/.states/0".to_string()),
        ("garbage", "/.states/abc".to_string()),
        ("garbage_tail", format!("/.states/{}/xyz", fp_of(some_init))),
        ("trailing_slash", format!("/.states/{}/", fp_of(some_init))),
        ("no_such_endpoint", "/.nothing".to_string()),
    ] {
        let (code, body) = http(port, "GET", &url);
        raw.push(json!({"label": label, "code": code, "init": some_init,
                        "items": if code == 200 { parse_states(&body, &rev) } else { json!([]) }}));
    }
    // run to completion, poll status
    let (cr, _) = http(port, "POST", "/.runtocompletion");
    let t0 = Instant::now();
    let mut status1 = json!({"ok": false});
    let mut polls = 0;
    while t0.elapsed() < Duration::from_secs(10) {
        let (_, b) = http(port, "GET", "/.status");
        status1 = parse_status(&b, &rev);
        polls += 1;
        if status1["done"] == json!(true) {
            break;
        }
        std::thread::sleep(Duration::from_millis(15));
    }
    json!({"status0_code": c0, "status0": status0, "init_code": ci, "init_view": init_view, "queries": queries, "raw": raw,
           "rtc_code": cr, "status1": status1, "polls": polls})
}

/// Path API round trips + on-demand checker driven directly
pub fn path_api(g: &Graph, depth: usize) -> Value {
    let model = TableModel::new(g.clone());
    let mut rev: HashMap<String, u32> = HashMap::new();
    for s in 1..=g.n {
        rev.insert(fp_of(s), s);
    }
    let mut recs = vec![];
    // every action sequence up to `depth` from every init state (including ignored / undefined actions)
    let mut frontier: Vec<(u32, Vec<u16>)> = g.init.iter().map(|s| (*s, vec![])).collect();
    let mut all = frontier.clone();
    for _ in 0..depth {
        let mut nf = vec![];
        for (i, acts) in &frontier {
            // the state reached (if the sequence is executable)
            let mut cur = Some(*i);
            for a in acts {
                cur = cur.and_then(|s| {
                    let sl = model.succs(s);
                    if (*a as usize) <= sl.len() && sl[(*a - 1) as usize] != 0 {
                        Some(sl[(*a - 1) as usize])
                    } else {
                        None
                    }
                });
            }
            if let Some(s) = cur {
                let k = model.succs(s).len() as u16;
                for a in 1..=(k + 1) {
                    // k+1: an action that is not enabled
                    let mut b = acts.clone();
                    b.push(a);
                    nf.push((*i, b));
                }
            }
        }
        all.extend(nf.iter().cloned());
        frontier = nf;
        if all.len() > 150 {
            break;
        }
    }
    all.truncate(150);
    for (i, acts) in all {
        let r = std::panic::catch_unwind(|| Path::from_actions(&model, i, acts.iter()));
        match r {
            Err(_) => recs.push(json!({"init": i, "acts": acts, "panicked": true, "some": false, "states": [], "encoded": [], "into_actions": [], "last": 0, "vec_len": 0})),
            Ok(None) => recs.push(json!({"init": i, "acts": acts, "panicked": false, "some": false, "states": [], "encoded": [], "into_actions": [], "last": 0, "vec_len": 0})),
            Ok(Some(p)) => {
                let encoded = decode_path(&p.encode(), &rev);
                let last = *p.last_state();
                let states = p.clone().into_states();
                let ia = p.clone().into_actions();
                let v = p.into_vec();
                recs.push(json!({"init": i, "acts": acts, "panicked": false, "some": true, "states": states, "encoded": encoded,
                                 "into_actions": ia, "last": last, "vec_len": v.len()}));
            }
        }
    }
    // an init state that is not one
    let not_init = (1..=g.n).find(|s| !g.init.contains(s));
    if let Some(s) = not_init {
        let p = Path::from_actions(&model, s, Vec::<&u16>::new());
        recs.push(json!({"init": s, "acts": [], "panicked": false, "some": p.is_some(), "states": [], "encoded": [], "into_actions": [], "last": 0, "vec_len": 0, "not_init": true}));
    }
    json!(recs)
}

#[derive(Clone)]
struct NodeLog(Arc<Mutex<Vec<u32>>>);
impl CheckerVisitor<TableModel> for NodeLog {
    fn visit(&self, _m: &TableModel, path: Path<u32, u16>) {
        self.0.lock().unwrap().push(*path.last_state());
    }
}

fn fp_num(node: u32) -> std::num::NonZeroU64 {
    std::num::NonZeroU64::new(fp_of(node).parse::<u64>().unwrap()).unwrap()
}

/// runs a call into the code under test on a thread of its own; false = it did not return in time (the thread is leaked)
fn returns_within(f: impl FnOnce() + Send + 'static, ms: u64) -> bool {
    let t = std::thread::spawn(f);
    let t0 = Instant::now();
    while !t.is_finished() && t0.elapsed() < Duration::from_millis(ms) {
        std::thread::sleep(Duration::from_micros(200));
    }
    t.is_finished()
}

/// on-demand: request states one by one (each must get evaluated), then run to completion
pub fn on_demand(g: &Graph, requests: &[u32], threads: usize, patience: &[bool]) -> Value {
    let model = TableModel::new(g.clone());
    let log = NodeLog(Arc::new(Mutex::new(vec![])));
    let c = Arc::new(model.clone().checker().threads(threads).visitor(log.clone()).spawn_on_demand());
    // a request that blocks its caller is recorded (the run then counts as not done), it does not block the harness
    let mut stuck = false;
    let mut seen_after = vec![];
    std::thread::sleep(Duration::from_millis(3));
    let idle_visits = log.0.lock().unwrap().len();
    for (ri, r) in requests.iter().enumerate() {
        let (cc, fp) = (Arc::clone(&c), fp_num(*r));
        if stuck || !returns_within(move || cc.check_fingerprint(fp), 5000) {
            stuck = true;
        }
        let t0 = Instant::now();
        let mut seen = false;
        // `patience` is only a hint for how long to wait (the caller expects this request to be evaluated or not); what
        // was observed is recorded either way and later snapshots still show a state that was evaluated late
        let wait = if stuck { 0 } else if patience.get(ri).cloned().unwrap_or(true) { 2000 } else { 40 };
        while t0.elapsed() < Duration::from_millis(wait) {
            if log.0.lock().unwrap().contains(r) {
                seen = true;
                break;
            }
            std::thread::sleep(Duration::from_micros(300));
        }
        seen_after.push(json!({"node": r, "evaluated": seen, "visited_so_far": log.0.lock().unwrap().clone()}));
    }
    let before_rtc = log.0.lock().unwrap().clone();
    let done_before = c.is_done();
    let cc = Arc::clone(&c);
    if stuck || !returns_within(move || cc.run_to_completion(), 5000) {
        stuck = true;
    }
    let t0 = Instant::now();
    while !stuck && !c.is_done() && t0.elapsed() < Duration::from_secs(10) {
        std::thread::sleep(Duration::from_micros(300));
    }
    std::thread::sleep(Duration::from_millis(2));
    let visited = log.0.lock().unwrap().clone();
    let mut discs: Vec<Value> = c
        .discoveries()
        .into_iter()
        .map(|(n, p)| {
            // the path rebuilt from fingerprints, and the same execution rebuilt from its action list and its encoding
            let acts = p.clone().into_actions();
            let states = p.clone().into_states();
            let via_actions = Path::from_actions(&model, states[0], acts.iter()).map(|q| q.into_states()).unwrap_or_default();
            json!({"name": n, "states": states, "acts": acts, "via_actions": via_actions})
        })
        .collect();
    discs.sort_by_key(|d| d["name"].as_str().unwrap().to_string());
    json!({"requests": requests, "threads": threads, "idle_visits": idle_visits, "steps": seen_after, "before_rtc": before_rtc,
           "done_before_rtc": done_before, "is_done": c.is_done() && !stuck, "stuck": stuck, "visited": visited, "unique": c.unique_state_count(),
           "total": c.state_count(), "discoveries": discs})
}

/// input lines: {"g": Graph, "gi": n, "depth": d, "requests": [[nodes]..]}
pub fn main_explorer(inp: &str, out: &str) {
    let f = std::io::BufReader::new(std::fs::File::open(inp).expect("open input"));
    if std::env::var("VH_PANIC_TRACE").is_err() {
        std::panic::set_hook(Box::new(|_| {}));
    }
    let lines: Vec<String> = f.lines().map(|l| l.unwrap()).filter(|l| !l.trim().is_empty()).collect();
    let lines = Arc::new(lines);
    let results: Arc<Mutex<Vec<(usize, Value)>>> = Arc::new(Mutex::new(vec![]));
    let next = Arc::new(std::sync::atomic::AtomicUsize::new(0));
    let mut hs = vec![];
    for _ in 0..8 {
        let lines = Arc::clone(&lines);
        let results = Arc::clone(&results);
        let next = Arc::clone(&next);
        hs.push(std::thread::spawn(move || loop {
            let i = next.fetch_add(1, Ordering::SeqCst);
            if i >= lines.len() {
                break;
            }
            let v: Value = serde_json::from_str(&lines[i]).expect("json");
            let g: Graph = serde_json::from_value(v["g"].clone()).expect("graph");
            let depth = v["depth"].as_u64().unwrap_or(3) as usize;
            let seed = v["seed"].as_u64().unwrap_or(1);
            let web = if v["web"].as_bool().unwrap_or(true) { explore_one(&g, depth, seed) } else { json!({}) };
            let paths = path_api(&g, depth);
            let mut od = vec![];
            if let Some(rs) = v["requests"].as_array() {
                for (k, r) in rs.iter().enumerate() {
                    let req: Vec<u32> = serde_json::from_value(r.clone()).unwrap();
                    let thr = v["od_threads"].as_u64().map(|x| x as usize).unwrap_or(1 + (k % 2));
                    let pat: Vec<bool> = v["patience"].get(k).and_then(|p| serde_json::from_value(p.clone()).ok()).unwrap_or_default();
                    od.push(on_demand(&g, &req, thr, &pat));
                }
            }
            let rec = json!({"gi": v["gi"], "has_web": v["web"].as_bool().unwrap_or(true), "web": web, "paths": paths, "ondemand": od});
            results.lock().unwrap().push((i, rec));
        }));
    }
    for h in hs {
        h.join().unwrap();
    }
    let mut rs = std::mem::take(&mut *results.lock().unwrap());
    rs.sort_by_key(|x| x.0);
    let mut o = std::io::BufWriter::new(std::fs::File::create(out).expect("create out"));
    for (_, rec) in rs {
        serde_json::to_writer(&mut o, &rec).unwrap();
        o.write_all(b"\n").unwrap();
    }
    o.flush().unwrap();
    let _ = VecDeque::<u8>::new();
}
