//! Drives link-wrapped actors DIRECTLY, the way the UDP runtime does (one persistent, owned `Cow` per actor handed to every
//! handler call), along seeded random schedules over a lossy duplicating network kept by the driver. Every step is
//! recorded (state before, action, state after); TLC judges each step against OrderedReliableLink.tla and the C16
//! predicates on every state. (The ActorModel hands handlers a fresh `Cow::Borrowed` for every step: code paths that
//! depend on the state already being owned are only reachable this way.)
use crate::actors::*;
use serde_json::{json, Value};
use stateright::actor::ordered_reliable_link::{ActorWrapper, MsgWrapper, StateWrapper, TimerWrapper};
use stateright::actor::*;
use std::borrow::Cow;
use std::io::{BufRead, Write};
use std::sync::Arc;

type W = ActorWrapper<OrlScript>;
type S = StateWrapper<u16, OrlSt>;

fn xorshift(x: &mut u64) -> u64 {
    *x ^= *x << 13;
    *x ^= *x >> 7;
    *x ^= *x << 17;
    *x
}

fn snapshot(states: &[Cow<'static, S>], net: &[Envelope<MsgWrapper<u16>>]) -> Value {
    let mut timers = Timers::new();
    timers.set(TimerWrapper::<()>::Network);
    let st: ActorModelState<W, Hist> = ActorModelState {
        actor_states: states.iter().map(|c| Arc::new(c.clone().into_owned())).collect(),
        network: Network::new_unordered_duplicating(net.iter().cloned()),
        timers_set: states.iter().map(|_| timers.clone()).collect(),
        random_choices: states.iter().map(|_| Default::default()).collect(),
        crashed: states.iter().map(|_| false).collect(),
        history: vec![],
    };
    state_json(&st, &orl_ps)
}

fn collect(id: usize, out: Out<W>, net: &mut Vec<Envelope<MsgWrapper<u16>>>) {
    for c in out {
        if let Command::Send(dst, msg) = c {
            let e = Envelope { src: Id::from(id), dst, msg };
            if !net.contains(&e) {
                net.push(e);
            }
        }
    }
}

/// input lines: an "orl" system plus {"runs": n, "steps": k, "seed": s}; output: one record per step
pub fn main_orl_direct(inp: &str, out: &str) {
    let f = std::io::BufReader::new(std::fs::File::open(inp).expect("open input"));
    let mut o = std::io::BufWriter::new(std::fs::File::create(out).expect("create out"));
    std::panic::set_hook(Box::new(|_| {}));
    for (si, line) in f.lines().enumerate() {
        let line = line.unwrap();
        if line.trim().is_empty() {
            continue;
        }
        let v: Value = serde_json::from_str(&line).expect("json");
        let sys: SysJ = serde_json::from_value(v.clone()).expect("sys json");
        let runs = v["runs"].as_u64().unwrap_or(50);
        let steps = v["steps"].as_u64().unwrap_or(30);
        let seed = v["seed"].as_u64().unwrap_or(1);
        for run in 0..runs {
            let mut rng = (seed.wrapping_mul(0x9E37_79B9_7F4A_7C15) ^ (run + 1).wrapping_mul(0xD1B5_4A32_D192_ED03)) | 1;
            let r = std::panic::catch_unwind(std::panic::AssertUnwindSafe(|| {
                let actors = orl_actors(&sys);
                let mut net: Vec<Envelope<MsgWrapper<u16>>> = vec![];
                let mut states: Vec<Cow<'static, S>> = vec![];
                for (i, a) in actors.iter().enumerate() {
                    let mut out = Out::new();
                    let s = a.on_start(Id::from(i), &mut out);
                    states.push(Cow::Owned(s));
                    collect(i, out, &mut net);
                }
                let mut recs = vec![json!({"sys": si + 1, "run": run, "step": 0, "init": true, "from": snapshot(&states, &net),
                                           "a": json!({"k": "none"}), "to": snapshot(&states, &net)})];
                for step in 1..=steps {
                    // enabled: deliver / drop of every envelope in flight, the resend timer of every actor
                    let n_env = net.len();
                    let lossy = sys.lossy;
                    let total = n_env * (if lossy { 2 } else { 1 }) + actors.len();
                    let pick = (xorshift(&mut rng) % total as u64) as usize;
                    let from = snapshot(&states, &net);
                    let a;
                    if pick < n_env {
                        let e = net[pick].clone();
                        let dst = usize::from(e.dst);
                        a = json!({"k": "deliver", "src": usize::from(e.src), "dst": dst, "msg": e.msg.dec(), "id": 0, "t": 0, "key": "", "val": 0});
                        if dst < actors.len() {
                            let mut out = Out::new();
                            actors[dst].on_msg(e.dst, &mut states[dst], e.src, e.msg.clone(), &mut out);
                            collect(dst, out, &mut net);
                        }
                    } else if lossy && pick < 2 * n_env {
                        let e = net.remove(pick - n_env);
                        a = json!({"k": "drop", "src": usize::from(e.src), "dst": usize::from(e.dst), "msg": e.msg.dec(), "id": 0, "t": 0, "key": "", "val": 0});
                    } else {
                        let i = pick - n_env * (if lossy { 2 } else { 1 });
                        a = json!({"k": "timeout", "src": 0, "dst": 0, "msg": 0, "id": i, "t": 1, "key": "", "val": 0});
                        let mut out = Out::new();
                        actors[i].on_timeout(Id::from(i), &mut states[i], &TimerWrapper::Network, &mut out);
                        collect(i, out, &mut net);
                    }
                    recs.push(json!({"sys": si + 1, "run": run, "step": step, "init": false, "from": from, "a": a, "to": snapshot(&states, &net)}));
                }
                recs
            }));
            match r {
                Ok(recs) => {
                    for rec in recs {
                        serde_json::to_writer(&mut o, &rec).unwrap();
                        o.write_all(b"\n").unwrap();
                    }
                }
                Err(_) => {
                    serde_json::to_writer(&mut o, &json!({"sys": si + 1, "run": run, "panicked": true})).unwrap();
                    o.write_all(b"\n").unwrap();
                }
            }
        }
    }
    o.flush().unwrap();
}
