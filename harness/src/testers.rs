//! Replays TLC-generated histories into the real consistency testers, and exercises the reference
//! objects on all short operation sequences. Records observations only; TLC is the judge.

use serde_json::{json, Value};
use stateright::semantics::register::{Register, RegisterOp, RegisterRet};
use stateright::semantics::vec::{VecOp, VecRet};
use stateright::semantics::write_once_register::{WORegister, WORegisterOp, WORegisterRet};
use stateright::semantics::*;
use std::fmt::Debug;
use std::io::{BufRead, Write};

pub trait Codec: SequentialSpec + Clone + Debug + PartialEq {
    fn init() -> Self;
    fn op(j: &Value) -> Option<Self::Op>;
    fn ret(j: &Value) -> Option<Self::Ret>;
    fn op_json(o: &Self::Op) -> Value;
    fn ret_json(r: &Self::Ret) -> Value;
    fn obj_json(&self) -> Value;
}

fn kv(j: &Value) -> (&str, u64) {
    (j["k"].as_str().unwrap_or(""), j["v"].as_u64().unwrap_or(0))
}

impl Codec for Register<u8> {
    fn init() -> Self {
        Register(0)
    }
    fn op(j: &Value) -> Option<Self::Op> {
        match kv(j) {
            ("w", v) => Some(RegisterOp::Write(v as u8)),
            ("r", _) => Some(RegisterOp::Read),
            _ => None,
        }
    }
    fn ret(j: &Value) -> Option<Self::Ret> {
        match kv(j) {
            ("wok", _) => Some(RegisterRet::WriteOk),
            ("rok", v) => Some(RegisterRet::ReadOk(v as u8)),
            _ => None,
        }
    }
    fn op_json(o: &Self::Op) -> Value {
        match o {
            RegisterOp::Write(v) => json!({"k": "w", "v": v}),
            RegisterOp::Read => json!({"k": "r", "v": 0}),
        }
    }
    fn ret_json(r: &Self::Ret) -> Value {
        match r {
            RegisterRet::WriteOk => json!({"k": "wok", "v": 0}),
            RegisterRet::ReadOk(v) => json!({"k": "rok", "v": v}),
        }
    }
    fn obj_json(&self) -> Value {
        json!(self.0)
    }
}

impl Codec for WORegister<u8> {
    fn init() -> Self {
        WORegister(None)
    }
    fn op(j: &Value) -> Option<Self::Op> {
        match kv(j) {
            ("w", v) => Some(WORegisterOp::Write(v as u8)),
            ("r", _) => Some(WORegisterOp::Read),
            _ => None,
        }
    }
    fn ret(j: &Value) -> Option<Self::Ret> {
        match kv(j) {
            ("wok", _) => Some(WORegisterRet::WriteOk),
            ("wfail", _) => Some(WORegisterRet::WriteFail),
            ("rok", 0) => Some(WORegisterRet::ReadOk(None)),
            ("rok", v) => Some(WORegisterRet::ReadOk(Some(v as u8))),
            _ => None,
        }
    }
    fn op_json(o: &Self::Op) -> Value {
        match o {
            WORegisterOp::Write(v) => json!({"k": "w", "v": v}),
            WORegisterOp::Read => json!({"k": "r", "v": 0}),
        }
    }
    fn ret_json(r: &Self::Ret) -> Value {
        match r {
            WORegisterRet::WriteOk => json!({"k": "wok", "v": 0}),
            WORegisterRet::WriteFail => json!({"k": "wfail", "v": 0}),
            WORegisterRet::ReadOk(v) => json!({"k": "rok", "v": v.unwrap_or(0)}),
        }
    }
    fn obj_json(&self) -> Value {
        json!(self.0.unwrap_or(0))
    }
}

impl Codec for Vec<u8> {
    fn init() -> Self {
        Vec::new()
    }
    fn op(j: &Value) -> Option<Self::Op> {
        match kv(j) {
            ("push", v) => Some(VecOp::Push(v as u8)),
            ("pop", _) => Some(VecOp::Pop),
            ("len", _) => Some(VecOp::Len),
            _ => None,
        }
    }
    fn ret(j: &Value) -> Option<Self::Ret> {
        match kv(j) {
            ("pushok", _) => Some(VecRet::PushOk),
            ("popok", 0) => Some(VecRet::PopOk(None)),
            ("popok", v) => Some(VecRet::PopOk(Some(v as u8))),
            ("lenok", n) => Some(VecRet::LenOk(n as usize)),
            _ => None,
        }
    }
    fn op_json(o: &Self::Op) -> Value {
        match o {
            VecOp::Push(v) => json!({"k": "push", "v": v}),
            VecOp::Pop => json!({"k": "pop", "v": 0}),
            VecOp::Len => json!({"k": "len", "v": 0}),
        }
    }
    fn ret_json(r: &Self::Ret) -> Value {
        match r {
            VecRet::PushOk => json!({"k": "pushok", "v": 0}),
            VecRet::PopOk(v) => json!({"k": "popok", "v": v.unwrap_or(0)}),
            VecRet::LenOk(n) => json!({"k": "lenok", "v": n}),
        }
    }
    fn obj_json(&self) -> Value {
        json!(self)
    }
}

fn apply<R: Codec, T: ConsistencyTester<u8, R>>(t: &mut T, e: &Value) -> bool
where
    R::Op: Clone,
{
    let th = e["t"].as_u64().unwrap() as u8;
    if e["k"] == "inv" {
        t.on_invoke(th, R::op(&e["x"]).expect("op")).is_ok()
    } else {
        t.on_return(th, R::ret(&e["x"]).expect("ret")).is_ok()
    }
}

fn ser_json<R: Codec>(s: Option<Vec<(R::Op, R::Ret)>>) -> (bool, Value) {
    match s {
        None => (false, json!([])),
        Some(v) => (
            true,
            json!(v.iter().map(|(o, r)| json!({"op": R::op_json(o), "ret": R::ret_json(r)})).collect::<Vec<_>>()),
        ),
    }
}

fn lin_to_json<R>(t: &LinearizabilityTester<u8, R>) -> String
where
    R: Codec,
    R::Op: Debug,
    R::Ret: Debug,
{
    // Debug of the derived struct lists every field that takes part in the derived Hash / Eq
    format!("{:?}", t)
}
fn sc_to_json<R>(t: &SequentialConsistencyTester<u8, R>) -> String
where
    R: Codec,
    R::Op: Debug,
    R::Ret: Debug,
{
    format!("{:?}", t)
}

fn replay_one<R>(h: &[Value]) -> Value
where
    R: Codec + std::hash::Hash,
    R::Op: Clone + Debug + PartialEq + std::hash::Hash,
    R::Ret: Clone + Debug + PartialEq + std::hash::Hash,
{
    // full replay, recording Ok/Err of each call
    let mut lin = LinearizabilityTester::<u8, R>::new(R::init());
    let mut sc = SequentialConsistencyTester::<u8, R>::new(R::init());
    let mut lin_calls = vec![];
    let mut sc_calls = vec![];
    for e in h {
        lin_calls.push(apply::<R, _>(&mut lin, e));
        sc_calls.push(apply::<R, _>(&mut sc, e));
    }
    // the same history once more, using on_invret wherever an invocation is immediately followed by its return
    let mut lin2 = LinearizabilityTester::<u8, R>::new(R::init());
    let mut sc2 = SequentialConsistencyTester::<u8, R>::new(R::init());
    let mut lin2_calls = vec![];
    let mut sc2_calls = vec![];
    let mut i = 0;
    while i < h.len() {
        let e = &h[i];
        let paired = i + 1 < h.len() && e["k"] == "inv" && h[i + 1]["k"] == "ret" && h[i + 1]["t"] == e["t"];
        if paired {
            let th = e["t"].as_u64().unwrap() as u8;
            let a = lin2.on_invret(th, R::op(&e["x"]).expect("op"), R::ret(&h[i + 1]["x"]).expect("ret")).is_ok();
            let b = sc2.on_invret(th, R::op(&e["x"]).expect("op"), R::ret(&h[i + 1]["x"]).expect("ret")).is_ok();
            lin2_calls.push(a);
            lin2_calls.push(a);
            sc2_calls.push(b);
            sc2_calls.push(b);
            i += 2;
        } else {
            lin2_calls.push(apply::<R, _>(&mut lin2, e));
            sc2_calls.push(apply::<R, _>(&mut sc2, e));
            i += 1;
        }
    }
    let (lin_has, lin_ser) = ser_json::<R>(lin.serialized_history());
    let (sc_has, sc_ser) = ser_json::<R>(sc.serialized_history());
    // value semantics: extend a CLONE of the parent tester by the last event; the parent must not change
    let (mut pb, mut pa, mut peq) = (String::new(), String::new(), true);
    if !h.is_empty() {
        let mut plin = LinearizabilityTester::<u8, R>::new(R::init());
        let mut psc = SequentialConsistencyTester::<u8, R>::new(R::init());
        for e in &h[..h.len() - 1] {
            let _ = apply::<R, _>(&mut plin, e);
            let _ = apply::<R, _>(&mut psc, e);
        }
        pb = format!("{:?}|{}|{}|{:?}|{}|{}", plin, plin.is_consistent(), plin.len(), psc, psc.is_consistent(), psc.len());
        let mut clin = plin.clone();
        let mut csc = psc.clone();
        let _ = apply::<R, _>(&mut clin, &h[h.len() - 1]);
        let _ = apply::<R, _>(&mut csc, &h[h.len() - 1]);
        pa = format!("{:?}|{}|{}|{:?}|{}|{}", plin, plin.is_consistent(), plin.len(), psc, psc.is_consistent(), psc.len());
        // the extended clones equal the fully replayed testers
        peq = clin == lin && csc == sc;
    }
    // identity of the testers as values (C04): hasher byte stream vs canonical rendering
    let lin_key = serde_json::to_string(&lin_to_json(&lin)).unwrap_or_default();
    let sc_key = serde_json::to_string(&sc_to_json(&sc)).unwrap_or_default();
    json!({
        "h": h,
        "lin_stream": crate::actors::stream_of(&lin), "lin_key": lin_key,
        "sc_stream": crate::actors::stream_of(&sc), "sc_key": sc_key,
        "lin": {"calls": lin_calls, "consistent": lin.is_consistent(), "has_ser": lin_has, "ser": lin_ser, "len": lin.len()},
        "sc": {"calls": sc_calls, "consistent": sc.is_consistent(), "has_ser": sc_has, "ser": sc_ser, "len": sc.len()},
        "lin2": {"calls": lin2_calls, "consistent": lin2.is_consistent(), "eq": lin2 == lin},
        "sc2": {"calls": sc2_calls, "consistent": sc2.is_consistent(), "eq": sc2 == sc},
        "parent_before": pb, "parent_after": pa, "clone_eq_replay": peq
    })
}

/// input: lines {"kind":..., "h":[events]}; output: one result line per history
pub fn main_testers(inp: &str, out: &str) {
    let f = std::io::BufReader::new(std::fs::File::open(inp).expect("open input"));
    let mut o = std::io::BufWriter::new(std::fs::File::create(out).expect("create out"));
    std::panic::set_hook(Box::new(|_| {}));
    for line in f.lines() {
        let line = line.unwrap();
        if line.trim().is_empty() {
            continue;
        }
        let v: Value = serde_json::from_str(&line).expect("json");
        let kind = v["kind"].as_str().unwrap().to_string();
        let h: Vec<Value> = v["h"].as_array().unwrap().clone();
        let r = std::panic::catch_unwind(|| match kind.as_str() {
            "reg" => replay_one::<Register<u8>>(&h),
            "wo" => replay_one::<WORegister<u8>>(&h),
            "vec" => replay_one::<Vec<u8>>(&h),
            k => panic!("kind {k}"),
        });
        let mut rec = match r {
            Ok(rec) => rec,
            Err(_) => json!({"h": h, "panicked": true}),
        };
        rec["kind"] = json!(kind);
        serde_json::to_writer(&mut o, &rec).unwrap();
        o.write_all(b"\n").unwrap();
    }
    o.flush().unwrap();
}

// ---------------------------------------------------------------------------------------------
// reference objects on all short operation sequences (C18a)

fn all_ops(kind: &str, v: u64) -> Vec<Value> {
    let mut o = vec![];
    if kind == "vec" {
        for x in 1..=v {
            o.push(json!({"k": "push", "v": x}));
        }
        o.push(json!({"k": "pop", "v": 0}));
        o.push(json!({"k": "len", "v": 0}));
    } else {
        for x in 1..=v {
            o.push(json!({"k": "w", "v": x}));
        }
        o.push(json!({"k": "r", "v": 0}));
    }
    o
}
fn all_rets(kind: &str, v: u64, l: u64) -> Vec<Value> {
    let mut r = vec![];
    match kind {
        "reg" => {
            r.push(json!({"k": "wok", "v": 0}));
            for x in 0..=v {
                r.push(json!({"k": "rok", "v": x}));
            }
        }
        "wo" => {
            r.push(json!({"k": "wok", "v": 0}));
            r.push(json!({"k": "wfail", "v": 0}));
            for x in 0..=v {
                r.push(json!({"k": "rok", "v": x}));
            }
        }
        _ => {
            r.push(json!({"k": "pushok", "v": 0}));
            for x in 0..=v {
                r.push(json!({"k": "popok", "v": x}));
            }
            for n in 0..=l {
                r.push(json!({"k": "lenok", "v": n}));
            }
        }
    }
    r
}

fn refobj_kind<R>(kind: &str, v: u64, maxlen: usize, o: &mut dyn Write)
where
    R: Codec,
{
    let ops = all_ops(kind, v);
    let rets = all_rets(kind, v, maxlen as u64);
    // every op sequence `pre` of length < maxlen (the object is brought into a state by invoking),
    // then every (op, ret) pair is checked with is_valid_step, and invoked
    let mut seqs: Vec<Vec<usize>> = vec![vec![]];
    let mut frontier: Vec<Vec<usize>> = vec![vec![]];
    for _ in 1..maxlen {
        let mut nf = vec![];
        for s in &frontier {
            for i in 0..ops.len() {
                let mut t = s.clone();
                t.push(i);
                nf.push(t);
            }
        }
        seqs.extend(nf.iter().cloned());
        frontier = nf;
    }
    for s in &seqs {
        let mut obj = R::init();
        let mut pre = vec![];
        for &i in s {
            let op = R::op(&ops[i]).unwrap();
            let ret = obj.invoke(&op);
            pre.push(json!({"op": ops[i], "ret": R::ret_json(&ret)}));
        }
        let before = obj.obj_json();
        for opj in &ops {
            let op = R::op(opj).unwrap();
            let mut o1 = obj.clone();
            let inv_ret = o1.invoke(&op);
            for retj in &rets {
                let ret = R::ret(retj).unwrap();
                let mut o2 = obj.clone();
                let valid = o2.is_valid_step(&op, &ret);
                // is_valid_history on pre ++ [(op, ret)] from the initial object
                let mut o3 = R::init();
                let mut pairs: Vec<(R::Op, R::Ret)> = pre
                    .iter()
                    .map(|p| (R::op(&p["op"]).unwrap(), R::ret(&p["ret"]).unwrap()))
                    .collect();
                pairs.push((R::op(opj).unwrap(), R::ret(retj).unwrap()));
                let hist_valid = o3.is_valid_history(pairs);
                let rec = json!({"kind": kind, "pre": pre, "obj": before, "op": opj, "ret": retj,
                    "invoke_ret": R::ret_json(&inv_ret), "invoke_obj": o1.obj_json(),
                    "valid_step": valid, "valid_step_obj": o2.obj_json(), "valid_history": hist_valid});
                serde_json::to_writer(&mut *o, &rec).unwrap();
                o.write_all(b"\n").unwrap();
            }
        }
    }
}

pub fn main_refobjs(out: &str, v: u64, maxlen: usize) {
    let mut o = std::io::BufWriter::new(std::fs::File::create(out).expect("create out"));
    refobj_kind::<Register<u8>>("reg", v, maxlen, &mut o);
    refobj_kind::<WORegister<u8>>("wo", v, maxlen, &mut o);
    refobj_kind::<Vec<u8>>("vec", v, maxlen, &mut o);
    o.flush().unwrap();
}
