//! Pure-function observations for C20 (VectorClock, DenseNatMap), C10a (RewritePlan / Rewrite) and the value
//! half of C04 (hasher byte streams of containers). Records only; TLC judges.

use crate::actors::stream_of;
use rand::rngs::StdRng;
use rand::{Rng, SeedableRng};
use serde_json::{json, Value};
use stateright::actor::{Envelope, Id, Network};
use stateright::util::{DenseNatMap, HashableHashMap, HashableHashSet, VectorClock};
use stateright::{Rewrite, RewritePlan};
use std::collections::{BTreeMap, BTreeSet, VecDeque};
use std::io::Write;
use std::iter::FromIterator;
use std::panic::{catch_unwind, AssertUnwindSafe};

fn seqs_up_to(l: usize, m: u32) -> Vec<Vec<u32>> {
    let mut all = vec![vec![]];
    let mut frontier: Vec<Vec<u32>> = vec![vec![]];
    for _ in 0..l {
        let mut nf = vec![];
        for s in &frontier {
            for v in 0..=m {
                let mut t = s.clone();
                t.push(v);
                nf.push(t);
            }
        }
        all.extend(nf.iter().cloned());
        frontier = nf;
    }
    all
}

fn vc_vec(c: &VectorClock) -> Value {
    serde_json::to_value(c).unwrap()
}

fn emit(o: &mut dyn Write, v: Value) {
    serde_json::to_writer(&mut *o, &v).unwrap();
    o.write_all(b"\n").unwrap();
}

pub fn vector_clocks(o: &mut dyn Write, l: usize, m: u32) {
    let dom = seqs_up_to(l, m);
    for a in &dom {
        let ca = VectorClock::from(a.clone());
        for k in 0..=l {
            let inc = ca.clone().incremented(k);
            emit(o, json!({"rec": "vc_inc", "a": a, "k": k, "inc": vc_vec(&inc),
                           "cmp": cmp_str(ca.partial_cmp(&inc))}));
        }
        for b in &dom {
            let cb = VectorClock::from(b.clone());
            let m = VectorClock::merge_max(&ca, &cb);
            emit(o, json!({"rec": "vc_pair", "a": a, "b": b, "cmp": cmp_str(ca.partial_cmp(&cb)), "eq": ca == cb,
                           "merge": vc_vec(&m), "stream_a": stream_of(&ca), "stream_b": stream_of(&cb)}));
        }
    }
}

/// Long clocks with components at the boundaries of the narrower integer types (a comparison through u8/u16, a
/// wrapping increment or a merge that truncates is invisible on components <= 2).
pub fn vector_clocks_big(o: &mut dyn Write, n: usize, seed: u64) {
    let mut rng = StdRng::seed_from_u64(seed ^ 0x5eed_c20);
    let vals: [u32; 12] = [0, 0, 1, 2, 3, 127, 128, 255, 256, 65_535, 65_536, 2_147_483_646];
    let gen = |rng: &mut StdRng| -> Vec<u32> {
        let len = rng.gen_range(0..9);
        (0..len).map(|_| vals[rng.gen_range(0..vals.len())]).collect()
    };
    for i in 0..n {
        let a = gen(&mut rng);
        // b: independent, or a small edit of a (equal up to trailing zeros, one component changed, truncated)
        let b = match i % 4 {
            0 => gen(&mut rng),
            1 => { let mut b = a.clone(); for _ in 0..rng.gen_range(0..3) { b.push(0); } b }
            2 => { let mut b = a.clone(); if !b.is_empty() { let k = rng.gen_range(0..b.len()); b[k] = vals[rng.gen_range(0..vals.len())]; } b }
            _ => { let mut b = a.clone(); let k = rng.gen_range(0..b.len() + 1); b.truncate(k); b }
        };
        let (ca, cb) = (VectorClock::from(a.clone()), VectorClock::from(b.clone()));
        let m = VectorClock::merge_max(&ca, &cb);
        emit(o, json!({"rec": "vc_pair", "a": a, "b": b, "cmp": cmp_str(ca.partial_cmp(&cb)), "eq": ca == cb,
                       "merge": vc_vec(&m), "stream_a": stream_of(&ca), "stream_b": stream_of(&cb)}));
        let k = rng.gen_range(0..a.len() + 3);
        let inc = ca.clone().incremented(k);
        emit(o, json!({"rec": "vc_inc", "a": a, "k": k, "inc": vc_vec(&inc), "cmp": cmp_str(ca.partial_cmp(&inc))}));
    }
}

fn cmp_str(c: Option<std::cmp::Ordering>) -> &'static str {
    match c {
        Some(std::cmp::Ordering::Less) => "LT",
        Some(std::cmp::Ordering::Greater) => "GT",
        Some(std::cmp::Ordering::Equal) => "EQ",
        None => "NONE",
    }
}

fn pair_lists(maxlen: usize, nkeys: usize, nvals: u8) -> Vec<Vec<(usize, u8)>> {
    let mut all = vec![vec![]];
    let mut frontier: Vec<Vec<(usize, u8)>> = vec![vec![]];
    for _ in 0..maxlen {
        let mut nf = vec![];
        for s in &frontier {
            for k in 0..nkeys {
                for v in 1..=nvals {
                    let mut t = s.clone();
                    t.push((k, v));
                    nf.push(t);
                }
            }
        }
        all.extend(nf.iter().cloned());
        frontier = nf;
    }
    all
}

fn perms(n: usize) -> Vec<Vec<usize>> {
    if n == 0 {
        return vec![vec![]];
    }
    let mut out = vec![];
    for p in perms(n - 1) {
        for i in 0..n {
            let mut q = p.clone();
            q.insert(i, n - 1);
            out.push(q);
        }
    }
    out
}

pub fn dense_maps(o: &mut dyn Write, maxlen: usize) {
    for pl in pair_lists(maxlen, maxlen + 1, 2) {
        let pj: Vec<Value> = pl.iter().map(|(k, v)| json!({"k": k, "v": v})).collect();
        let r = catch_unwind(AssertUnwindSafe(|| DenseNatMap::<usize, u8>::from_iter(pl.clone())));
        match r {
            Err(_) => emit(o, json!({"rec": "dnm_from", "pairs": pj, "ok": false, "values": [], "iter": [], "gets": [], "len": 0})),
            Ok(m) => {
                let values: Vec<u8> = m.values().cloned().collect();
                let iter: Vec<Value> = m.iter().map(|(k, v)| json!({"k": k, "v": v})).collect();
                let gets: Vec<Value> = (0..=maxlen + 1).map(|k| json!(m.get(k).into_iter().cloned().collect::<Vec<u8>>())).collect();
                emit(o, json!({"rec": "dnm_from", "pairs": pj, "ok": true, "values": values, "iter": iter, "gets": gets, "len": m.len()}));
                // the rest of the map API: Index, IndexMut, IntoIterator, From<Vec>, FromIterator<V>, Default/new, ==, hash
                {
                    let index: Vec<u8> = (0..m.len()).map(|k| m[k]).collect();
                    let into: Vec<Value> = m.clone().into_iter().map(|(k, v): (usize, u8)| json!({"k": k, "v": v})).collect();
                    let from_vec: DenseNatMap<usize, u8> = DenseNatMap::from(values.clone());
                    let from_vals: DenseNatMap<usize, u8> = values.iter().cloned().collect();
                    let mut grown: DenseNatMap<usize, u8> = DenseNatMap::new();
                    for (k, v) in values.iter().enumerate() {
                        grown.insert(k, *v);
                    }
                    let dflt: DenseNatMap<usize, u8> = Default::default();
                    let same = [from_vec == m, from_vals == m, grown == m, stream_of(&from_vec) == stream_of(&m),
                                stream_of(&grown) == stream_of(&m), (dflt == m) == values.is_empty(), dflt.len() == 0];
                    // IndexMut at every key: exactly that key changes
                    let muts: Vec<Value> = (0..m.len()).map(|k| {
                        let mut m3 = m.clone();
                        m3[k] = 7;
                        json!(m3.values().cloned().collect::<Vec<u8>>())
                    }).collect();
                    // Index beyond the end panics (a total map on 0..len, nothing else)
                    let oob = catch_unwind(AssertUnwindSafe(|| m[m.len()])).is_err();
                    // differs from every other map of the same length in == (checked against one neighbour per key)
                    let neq: Vec<bool> = (0..m.len()).map(|k| { let mut m3 = m.clone(); m3[k] = m3[k] + 1; m3 != m && stream_of(&m3) != stream_of(&m) }).collect();
                    emit(o, json!({"rec": "dnm_api", "m": values, "index": index, "into_iter": into, "same": same, "muts": muts,
                                   "oob_panics": oob, "neq": neq}));
                }
                // insert at every position
                for k in 0..=m.len() + 1 {
                    let mut m2 = m.clone();
                    let r = catch_unwind(AssertUnwindSafe(|| {
                        let old = m2.insert(k, 9);
                        (old, m2.values().cloned().collect::<Vec<u8>>())
                    }));
                    match r {
                        Err(_) => emit(o, json!({"rec": "dnm_insert", "m": values, "k": k, "ok": false, "old": [], "result": []})),
                        Ok((old, res)) => emit(o, json!({"rec": "dnm_insert", "m": values, "k": k, "ok": true,
                            "old": old.into_iter().collect::<Vec<u8>>(), "result": res})),
                    }
                }
                // rewrite under every plan (DenseNatMap keyed by Id)
                let mid: DenseNatMap<Id, u8> = values.iter().cloned().collect();
                for p in perms(values.len()) {
                    let plan = RewritePlan::<Id, _>::from_values_to_sort(&p);
                    let r = catch_unwind(AssertUnwindSafe(|| mid.rewrite(&plan).values().cloned().collect::<Vec<u8>>()));
                    match r {
                        Ok(res) => emit(o, json!({"rec": "dnm_rewrite", "m": values, "plan": p, "ok": true, "result": res})),
                        Err(_) => emit(o, json!({"rec": "dnm_rewrite", "m": values, "plan": p, "ok": false, "result": []})),
                    }
                }
            }
        }
    }
}

fn ids(v: &[usize]) -> Vec<Id> {
    v.iter().map(|i| Id::from(*i)).collect()
}
fn u(i: Id) -> usize {
    usize::from(i)
}

pub fn plans(o: &mut dyn Write, maxlen: usize, m: u32, seed: u64) {
    // all short vectors, plus seeded long vectors with many ties (sorting algorithms change behaviour with length)
    let mut all = seqs_up_to(maxlen, m);
    let mut x = seed | 1;
    for k in 0..80u64 {
        let len = 18 + (k % 50) as usize;
        let distinct = [2u64, 3, 5][(k % 3) as usize];
        let mut v = vec![];
        for _ in 0..len {
            x ^= x << 13;
            x ^= x >> 7;
            x ^= x << 17;
            v.push((x % distinct) as u32);
        }
        all.push(v);
    }
    for vals in all {
        let n = vals.len();
        let plan = RewritePlan::<Id, _>::from_values_to_sort(&vals);
        let map: Vec<usize> = (0..n).map(|i| u(plan.rewrite(&Id::from(i)))).collect();
        let re_vals: Vec<u32> = plan.reindex(&vals);
        // a vector of ids pointing "one to the right": element i holds Id((i+1) mod n)
        let ptr: Vec<Id> = (0..n).map(|i| Id::from((i + 1) % n.max(1))).collect();
        let re_ids: Vec<usize> = plan.reindex(&ptr).into_iter().map(u).collect();
        emit(o, json!({"rec": "plan", "vals": vals, "plan": map, "reindex_vals": re_vals,
                       "ptr": ptr.iter().map(|i| u(*i)).collect::<Vec<_>>(), "reindex_ids": re_ids}));
    }
}

fn item_sort(mut v: Vec<Vec<usize>>) -> Vec<Vec<usize>> {
    v.sort();
    v
}

pub fn containers(o: &mut dyn Write, seed: u64, per_plan: usize) {
    let mut rng = StdRng::seed_from_u64(seed);
    for n in 2..=4usize {
        for p in perms(n) {
            let plan = RewritePlan::<Id, _>::from_values_to_sort(&p);
            for _ in 0..per_plan {
                let rid = |rng: &mut StdRng| rng.gen_range(0..n);
                let len = rng.gen_range(0..=4);
                let v: Vec<usize> = (0..len).map(|_| rid(&mut rng)).collect();
                let mut out = |kind: &str, ordered: bool, nid: usize, inp: Vec<Vec<usize>>, outp: Vec<Vec<usize>>, extra: Value| {
                    emit(o, json!({"rec": "rewrite", "kind": kind, "plan": p, "ordered": ordered, "nid": nid,
                                   "input": inp, "output": outp, "extra": extra}));
                };
                // sequences
                let vi = ids(&v);
                out("vec_id", true, 1, v.iter().map(|x| vec![*x]).collect(), vi.rewrite(&plan).iter().map(|x| vec![u(*x)]).collect(), json!({}));
                let dq: VecDeque<Id> = vi.iter().cloned().collect();
                out("deque_id", true, 1, v.iter().map(|x| vec![*x]).collect(), dq.rewrite(&plan).iter().map(|x| vec![u(*x)]).collect(), json!({}));
                // sets
                let bs: BTreeSet<Id> = vi.iter().cloned().collect();
                out("bset_id", false, 1, item_sort(bs.iter().map(|x| vec![u(*x)]).collect()),
                    item_sort(bs.rewrite(&plan).iter().map(|x| vec![u(*x)]).collect()), json!({}));
                let hs: HashableHashSet<Id> = vi.iter().cloned().collect();
                out("hset_id", false, 1, item_sort(hs.iter().map(|x| vec![u(*x)]).collect()),
                    item_sort(hs.rewrite(&plan).iter().map(|x| vec![u(*x)]).collect()), json!({}));
                // maps Id -> Id
                let kv: Vec<(usize, usize)> = (0..rng.gen_range(0..=n)).map(|_| (rid(&mut rng), rid(&mut rng))).collect();
                let bm: BTreeMap<Id, Id> = kv.iter().map(|(k, v)| (Id::from(*k), Id::from(*v))).collect();
                out("bmap_id_id", false, 2, item_sort(bm.iter().map(|(k, v)| vec![u(*k), u(*v)]).collect()),
                    item_sort(bm.rewrite(&plan).iter().map(|(k, v)| vec![u(*k), u(*v)]).collect()), json!({}));
                let hm: HashableHashMap<Id, Id> = bm.iter().map(|(k, v)| (*k, *v)).collect();
                out("hmap_id_id", false, 2, item_sort(hm.iter().map(|(k, v)| vec![u(*k), u(*v)]).collect()),
                    item_sort(hm.rewrite(&plan).iter().map(|(k, v)| vec![u(*k), u(*v)]).collect()), json!({}));
                // option, pair, envelope
                let op: Option<Id> = if rng.gen_bool(0.3) { None } else { Some(Id::from(rid(&mut rng))) };
                out("opt_id", true, 1, op.iter().map(|x| vec![u(*x)]).collect(), op.rewrite(&plan).iter().map(|x| vec![u(*x)]).collect(), json!({}));
                let pr = (Id::from(rid(&mut rng)), Id::from(rid(&mut rng)));
                let pr2 = pr.rewrite(&plan);
                out("pair_id", true, 2, vec![vec![u(pr.0), u(pr.1)]], vec![vec![u(pr2.0), u(pr2.1)]], json!({}));
                let env = Envelope { src: Id::from(rid(&mut rng)), dst: Id::from(rid(&mut rng)), msg: Id::from(rid(&mut rng)) };
                let env2 = env.rewrite(&plan);
                out("envelope", true, 3, vec![vec![u(env.src), u(env.dst), u(env.msg)]], vec![vec![u(env2.src), u(env2.dst), u(env2.msg)]], json!({}));
                // the write-once register's message and actor-state wrappers: payloads that carry Ids are rewritten, the
                // variant, request ids and client states are not touched (item = [id columns.., variant, request id ..])
                {
                    use stateright::actor::write_once_register::{WORegisterActorState, WORegisterMsg};
                    type WM = WORegisterMsg<u64, Id, Id>;
                    let r9 = rng.gen_range(0..9u64) as usize;
                    let with_id: Vec<(usize, WM)> = vec![
                        (1, WORegisterMsg::Internal(Id::from(rid(&mut rng)))),
                        (2, WORegisterMsg::Put(r9 as u64, Id::from(rid(&mut rng)))),
                        (6, WORegisterMsg::GetOk(r9 as u64, Id::from(rid(&mut rng)))),
                    ];
                    let code = |m: &WM| -> Vec<usize> {
                        match m {
                            WORegisterMsg::Internal(i) => vec![u(*i), 1, 0],
                            WORegisterMsg::Put(r, v) => vec![u(*v), 2, *r as usize],
                            WORegisterMsg::Get(r) => vec![3, *r as usize],
                            WORegisterMsg::PutOk(r) => vec![4, *r as usize],
                            WORegisterMsg::PutFail(r) => vec![5, *r as usize],
                            WORegisterMsg::GetOk(r, v) => vec![u(*v), 6, *r as usize],
                        }
                    };
                    for (_, m) in &with_id {
                        out("wo_msg_with_id", true, 1, vec![code(m)], vec![code(&m.rewrite(&plan))], json!({}));
                    }
                    let without: Vec<WM> = vec![WORegisterMsg::Get(r9 as u64), WORegisterMsg::PutOk(r9 as u64), WORegisterMsg::PutFail(r9 as u64)];
                    for m in &without {
                        out("wo_msg_plain", true, 0, vec![code(m)], vec![code(&m.rewrite(&plan))], json!({}));
                    }
                    type WS = WORegisterActorState<Id, u64>;
                    let scode = |s: &WS| -> Vec<usize> {
                        match s {
                            WORegisterActorState::Server(i) => vec![u(*i), 1],
                            WORegisterActorState::Client { awaiting, op_count } => vec![0, awaiting.map(|x| x as usize + 1).unwrap_or(0), *op_count as usize],
                        }
                    };
                    let sv: WS = WORegisterActorState::Server(Id::from(rid(&mut rng)));
                    out("wo_state_server", true, 1, vec![scode(&sv)], vec![scode(&sv.rewrite(&plan))], json!({}));
                    let cl: WS = WORegisterActorState::Client { awaiting: if rng.gen_bool(0.5) { Some(r9 as u64) } else { None }, op_count: rng.gen_range(0..4) };
                    out("wo_state_client", true, 0, vec![scode(&cl)], vec![scode(&cl.rewrite(&plan))], json!({}));
                }
                // networks with id-bearing messages
                let envs: Vec<Envelope<Id>> = (0..rng.gen_range(0..=4))
                    .map(|_| Envelope { src: Id::from(rid(&mut rng)), dst: Id::from(rid(&mut rng)), msg: Id::from(rid(&mut rng)) })
                    .collect();
                let last = if rng.gen_bool(0.5) { envs.first().cloned() } else { None };
                let nd = Network::new_unordered_duplicating_with_last_msg(envs.clone(), last);
                let proj_dup = |n: &Network<Id>| match n {
                    Network::UnorderedDuplicating(s, l) => (
                        item_sort(s.iter().map(|e| vec![u(e.src), u(e.dst), u(e.msg)]).collect()),
                        l.iter().map(|e| vec![u(e.src), u(e.dst), u(e.msg)]).collect::<Vec<_>>(),
                    ),
                    _ => unreachable!(),
                };
                let (i1, l1) = proj_dup(&nd);
                let (o1, l2) = proj_dup(&nd.rewrite(&plan));
                out("net_dup", false, 3, i1, o1, json!({"last_in": l1, "last_out": l2}));
                let nn = Network::new_unordered_nonduplicating(envs.clone());
                let proj_nn = |n: &Network<Id>| match n {
                    Network::UnorderedNonDuplicating(m) => item_sort(m.iter().map(|(e, c)| vec![u(e.src), u(e.dst), u(e.msg), *c]).collect()),
                    _ => unreachable!(),
                };
                out("net_nondup", false, 3, proj_nn(&nn), proj_nn(&nn.rewrite(&plan)), json!({}));
                let no = Network::new_ordered(envs.clone());
                let proj_no = |n: &Network<Id>| match n {
                    Network::Ordered(m) => item_sort(
                        m.iter()
                            .map(|((s, d), q)| {
                                let mut v = vec![u(*s), u(*d)];
                                v.extend(q.iter().map(|x| u(*x)));
                                v
                            })
                            .collect(),
                    ),
                    _ => unreachable!(),
                };
                out("net_ordered", false, 99, proj_no(&no), proj_no(&no.rewrite(&plan)), json!({}));
                // DenseNatMap<Id, Id>: total map on 0..n-1
                let vals: Vec<Id> = (0..n).map(|_| Id::from(rid(&mut rng))).collect();
                let dm: DenseNatMap<Id, Id> = vals.iter().cloned().collect();
                let dm2 = dm.rewrite(&plan);
                out("dnm_id_id", false, 2, item_sort(dm.iter().map(|(k, v)| vec![u(k), u(*v)]).collect()),
                    item_sort(dm2.iter().map(|(k, v)| vec![u(k), u(*v)]).collect()), json!({}));
            }
        }
    }
}

pub fn main_algebra(out: &str, what: &str, l: usize, m: u32, seed: u64) {
    let mut o = std::io::BufWriter::new(std::fs::File::create(out).expect("create out"));
    std::panic::set_hook(Box::new(|_| {}));
    match what {
        "vc" => vector_clocks(&mut o, l, m),
        "dnm" => dense_maps(&mut o, l),
        "vcbig" => vector_clocks_big(&mut o, l, seed),
        "plans" => plans(&mut o, l, m, seed),
        "containers" => containers(&mut o, seed, l),
        "identity" => identity(&mut o),
        w => panic!("algebra {w}"),
    }
    o.flush().unwrap();
}

// ---------------------------------------------------------------------------------------------
// C04, value level: concrete values built in different ways from the same abstract value must feed the same byte
// stream to the hasher and compare equal; different abstract values must feed different streams.

fn subsets(atoms: &[u8]) -> Vec<Vec<u8>> {
    let mut out = vec![];
    for m in 0..(1u32 << atoms.len()) {
        out.push(atoms.iter().enumerate().filter(|(i, _)| m >> i & 1 == 1).map(|(_, a)| *a).collect());
    }
    out
}

/// several concrete HashableHashSets for one abstract set
fn set_variants(items: &[u8]) -> Vec<HashableHashSet<u8>> {
    let mut v = vec![];
    let a: HashableHashSet<u8> = items.iter().cloned().collect();
    v.push(a);
    let mut b = HashableHashSet::with_capacity(64);
    for x in items.iter().rev() {
        b.insert(*x);
    }
    v.push(b);
    let mut c: HashableHashSet<u8> = HashableHashSet::new();
    for x in items {
        c.insert(*x);
    }
    for x in [200u8, 201, 202] {
        c.insert(x);
    }
    for x in [200u8, 201, 202] {
        c.remove(&x);
    }
    v.push(c);
    v
}

fn key_set(items: &[u8]) -> String {
    let mut s = items.to_vec();
    s.sort();
    format!("{:?}", s)
}

/// the concrete values of one category; on flush every value is compared (==) with every value of the category, in both
/// orders, and the record carries the keys of the values it compared equal to (the judge decides)
struct Cat<T> {
    cat: &'static str,
    vals: Vec<(String, usize, T)>,
}
impl<T: std::hash::Hash + PartialEq> Cat<T> {
    fn new(cat: &'static str) -> Self {
        Cat { cat, vals: vec![] }
    }
    fn add(&mut self, key: String, variant: usize, v: T) {
        self.vals.push((key, variant, v));
    }
    fn flush(self, o: &mut dyn Write) {
        for (key, variant, v) in &self.vals {
            let mut eq_keys: Vec<&String> = self.vals.iter().filter(|(_, _, w)| v == w).map(|(k, _, _)| k).collect();
            eq_keys.sort();
            eq_keys.dedup();
            emit(o, json!({"rec": "identity", "cat": self.cat, "key": key, "variant": variant, "stream": stream_of(v), "eq_keys": eq_keys}));
        }
    }
}

pub fn identity(o: &mut dyn Write) {
    let mut c_map_to_sets = Cat::new("map_to_sets");
    let mut c_net_dup = Cat::new("net_dup");
    let mut c_net_nondup = Cat::new("net_nondup");
    let mut c_net_ordered = Cat::new("net_ordered");
    let mut c_pair_of_clocks = Cat::new("pair_of_clocks");
    let mut c_pair_of_maps = Cat::new("pair_of_maps");
    let mut c_pair_of_sets = Cat::new("pair_of_sets");
    let mut c_set_of_sets = Cat::new("set_of_sets");
    let mut c_sets_as_map_keys = Cat::new("sets_as_map_keys");
    let mut c_vec_of_clocks = Cat::new("vec_of_clocks");
    let mut c_vec_of_sets = Cat::new("vec_of_sets");
    let mut c_vec_of_timers = Cat::new("vec_of_timers");
    let atoms = [1u8, 2, 3];
    let subs = subsets(&atoms);
    // 1. two adjacent sets in a tuple
    for a in &subs {
        for b in &subs {
            let (va, vb) = (set_variants(a), set_variants(b));
            for k in 0..va.len() {
                c_pair_of_sets.add(format!("{}|{}", key_set(a), key_set(b)), k, (va[k].clone(), vb[(k + 1) % vb.len()].clone()));
            }
        }
    }
    // 2. vectors of sets (adjacent collections), also as Timers (the per-actor timer sets of a system state)
    let small = subsets(&[1u8, 2]);
    let mut vecs: Vec<Vec<Vec<u8>>> = vec![vec![]];
    let mut frontier: Vec<Vec<Vec<u8>>> = vec![vec![]];
    for _ in 0..3 {
        let mut nf = vec![];
        for f in &frontier {
            for s in &small {
                let mut g = f.clone();
                g.push(s.clone());
                nf.push(g);
            }
        }
        vecs.extend(nf.iter().cloned());
        frontier = nf;
    }
    for v in &vecs {
        let key = v.iter().map(|s| key_set(s)).collect::<Vec<_>>().join("|");
        for k in 0..3 {
            let conc: Vec<HashableHashSet<u8>> = v.iter().map(|s| set_variants(s)[k].clone()).collect();
            c_vec_of_sets.add(key.clone(), k, conc);
        }
        let timers: Vec<stateright::actor::Timers<u8>> = v
            .iter()
            .map(|s| {
                let mut t = stateright::actor::Timers::new();
                for x in s {
                    t.set(*x);
                }
                t
            })
            .collect();
        c_vec_of_timers.add(key.clone(), 0, timers);
        let timers2: Vec<stateright::actor::Timers<u8>> = v
            .iter()
            .map(|s| {
                let mut t = stateright::actor::Timers::new();
                for x in s.iter().rev() {
                    t.set(*x);
                }
                t.set(77);
                t.cancel(&77);
                t
            })
            .collect();
        c_vec_of_timers.add(key, 1, timers2);
    }
    // 3. maps, adjacent maps
    let keys = [1u8, 2];
    let mut maps: Vec<Vec<(u8, u8)>> = vec![vec![]];
    for k in keys {
        let mut nx = vec![];
        for m in &maps {
            nx.push(m.clone());
            for v in [1u8, 2] {
                let mut m2 = m.clone();
                m2.push((k, v));
                nx.push(m2);
            }
        }
        maps = nx;
    }
    let mk_map = |m: &Vec<(u8, u8)>, variant: usize| -> HashableHashMap<u8, u8> {
        let mut h = if variant == 1 { HashableHashMap::with_capacity(32) } else { HashableHashMap::new() };
        if variant == 1 {
            for (k, v) in m.iter().rev() {
                h.insert(*k, *v);
            }
        } else {
            for (k, v) in m {
                h.insert(*k, *v);
            }
        }
        h
    };
    for a in &maps {
        for b in &maps {
            for k in 0..2 {
                c_pair_of_maps.add(format!("{:?}|{:?}", a, b), k, (mk_map(a, k), mk_map(b, 1 - k)));
            }
        }
    }
    // 4. nested: sets of sets, maps to sets, sets as map keys -- built in different orders / capacities
    let inner = subsets(&[1u8, 2]);
    for m in 0..(1u32 << inner.len()) {
        let chosen: Vec<Vec<u8>> = inner.iter().enumerate().filter(|(i, _)| m >> i & 1 == 1).map(|(_, s)| s.clone()).collect();
        let mut ks: Vec<String> = chosen.iter().map(|s| key_set(s)).collect();
        ks.sort();
        let key = ks.join("|");
        for k in 0..3 {
            let mut outer: HashableHashSet<HashableHashSet<u8>> = if k == 1 { HashableHashSet::with_capacity(50) } else { HashableHashSet::new() };
            let order: Vec<&Vec<u8>> = if k == 1 { chosen.iter().rev().collect() } else { chosen.iter().collect() };
            for s in order {
                outer.insert(set_variants(s)[k].clone());
            }
            c_set_of_sets.add(key.clone(), k, outer);
            // the same sets as values of a map (key = index in `inner`)
            let mut mp: HashableHashMap<u8, HashableHashSet<u8>> = HashableHashMap::new();
            for s in &chosen {
                let idx = inner.iter().position(|x| x == s).unwrap() as u8;
                mp.insert(idx, set_variants(s)[k].clone());
            }
            c_map_to_sets.add(key.clone(), k, mp);
            let mut mk: HashableHashMap<HashableHashSet<u8>, u8> = HashableHashMap::new();
            for s in &chosen {
                mk.insert(set_variants(s)[(k + 1) % 3].clone(), 9);
            }
            c_sets_as_map_keys.add(key.clone(), k, mk);
        }
    }
    // 5. adjacent vector clocks (trailing zeros are insignificant)
    let clocks = seqs_up_to(2, 1);
    let canon = |c: &Vec<u32>| {
        let mut d = c.clone();
        while d.last() == Some(&0) {
            d.pop();
        }
        format!("{:?}", d)
    };
    for a in &clocks {
        for b in &clocks {
            let key = format!("{}|{}", canon(a), canon(b));
            c_pair_of_clocks.add(key.clone(), 0, (VectorClock::from(a.clone()), VectorClock::from(b.clone())));
            let mut a2 = a.clone();
            a2.push(0);
            c_pair_of_clocks.add(key.clone(), 1, (VectorClock::from(a2), VectorClock::from(b.clone())));
            c_vec_of_clocks.add(key, 0, vec![VectorClock::from(a.clone()), VectorClock::from(b.clone())]);
        }
    }
    // 6. networks: same contents built in different send orders; last_msg and counts are part of the identity
    let envs: Vec<Envelope<u8>> = vec![
        Envelope { src: Id::from(0), dst: Id::from(1), msg: 1 },
        Envelope { src: Id::from(1), dst: Id::from(0), msg: 1 },
        Envelope { src: Id::from(0), dst: Id::from(1), msg: 2 },
    ];
    for m in 0..(1u32 << envs.len()) {
        let chosen: Vec<Envelope<u8>> = envs.iter().enumerate().filter(|(i, _)| m >> i & 1 == 1).map(|(_, e)| *e).collect();
        let key = format!("{:?}", chosen);
        for k in 0..2 {
            let order: Vec<Envelope<u8>> = if k == 1 { chosen.iter().rev().cloned().collect() } else { chosen.clone() };
            c_net_dup.add(format!("{}/none", key), k, Network::new_unordered_duplicating(order.clone()));
            for l in &envs[..2] {
                c_net_dup.add(format!("{}/{:?}", key, l), k, Network::new_unordered_duplicating_with_last_msg(order.clone(), Some(*l)));
            }
            c_net_nondup.add(key.clone(), k, Network::new_unordered_nonduplicating(order.clone()));
            let mut twice = order.clone();
            if let Some(e) = chosen.first() {
                twice.push(*e);
                c_net_nondup.add(format!("{}+{:?}", key, e), k, Network::new_unordered_nonduplicating(twice));
            }
        }
        // ordered: per-flow order matters, interleaving of different flows does not
        let o1: Vec<Envelope<u8>> = chosen.clone();
        let flows_key = {
            let mut f01: Vec<u8> = vec![];
            let mut f10: Vec<u8> = vec![];
            for e in &o1 {
                if usize::from(e.src) == 0 { f01.push(e.msg) } else { f10.push(e.msg) }
            }
            format!("{:?}|{:?}", f01, f10)
        };
        c_net_ordered.add(flows_key.clone(), 0, Network::new_ordered(o1.clone()));
        // move the 1->0 message to the front: same flows
        let mut o2: Vec<Envelope<u8>> = o1.iter().filter(|e| usize::from(e.src) == 1).cloned().collect();
        o2.extend(o1.iter().filter(|e| usize::from(e.src) == 0).cloned());
        c_net_ordered.add(flows_key, 1, Network::new_ordered(o2));
    }
    c_map_to_sets.flush(o);
    c_net_dup.flush(o);
    c_net_nondup.flush(o);
    c_net_ordered.flush(o);
    c_pair_of_clocks.flush(o);
    c_pair_of_maps.flush(o);
    c_pair_of_sets.flush(o);
    c_set_of_sets.flush(o);
    c_sets_as_map_keys.flush(o);
    c_vec_of_clocks.flush(o);
    c_vec_of_sets.flush(o);
    c_vec_of_timers.flush(o);
}
