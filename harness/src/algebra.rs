//! Pure-function observations for C20 (VectorClock, DenseNatMap), C10a (RewritePlan / Rewrite) and the value
//! half of C04 (hasher byte streams of containers). Records only; TLC judges.

use crate::actors::stream_of;
use rand::rngs::StdRng;
use rand::{Rng, SeedableRng};
use serde_json::{json, Value};
use stateright::actor::{Envelope, Id, Network};
use stateright::util::{DenseNatMap, HashableHashMap, HashableHashSet, VectorClock};
use stateright::{Rewrite, RewritePlan};
use std::collections::{BTreeMap, BTreeSet, VecDeque};
use std::io::Write;
use std::iter::FromIterator;
use std::panic::{catch_unwind, AssertUnwindSafe};

fn seqs_up_to(l: usize, m: u32) -> Vec<Vec<u32>> {
    let mut all = vec![vec![]];
    let mut frontier: Vec<Vec<u32>> = vec![vec![]];
    for _ in 0..l {
        let mut nf = vec![];
        for s in &frontier {
            for v in 0..=m {
                let mut t = s.clone();
                t.push(v);
                nf.push(t);
            }
        }
        all.extend(nf.iter().cloned());
        frontier = nf;
    }
    all
}

fn vc_vec(c: &VectorClock) -> Value {
    serde_json::to_value(c).unwrap()
}

fn emit(o: &mut dyn Write, v: Value) {
    serde_json::to_writer(&mut *o, &v).unwrap();
    o.write_all(b"\n").unwrap();
}

pub fn vector_clocks(o: &mut dyn Write, l: usize, m: u32) {
    let dom = seqs_up_to(l, m);
    for a in &dom {
        let ca = VectorClock::from(a.clone());
        for k in 0..=l {
            let inc = ca.clone().incremented(k);
            emit(o, json!({"rec": "vc_inc", "a": a, "k": k, "inc": vc_vec(&inc),
                           "cmp": cmp_str(ca.partial_cmp(&inc))}));
        }
        for b in &dom {
            let cb = VectorClock::from(b.clone());
            let m = VectorClock::merge_max(&ca, &cb);
            emit(o, json!({"rec": "vc_pair", "a": a, "b": b, "cmp": cmp_str(ca.partial_cmp(&cb)), "eq": ca == cb,
                           "merge": vc_vec(&m), "stream_a": stream_of(&ca), "stream_b": stream_of(&cb)}));
        }
    }
}

fn cmp_str(c: Option<std::cmp::Ordering>) -> &'static str {
    match c {
        Some(std::cmp::Ordering::Less) => "LT",
        Some(std::cmp::Ordering::Greater) => "GT",
        Some(std::cmp::Ordering::Equal) => "EQ",
        None => "NONE",
    }
}

fn pair_lists(maxlen: usize, nkeys: usize, nvals: u8) -> Vec<Vec<(usize, u8)>> {
    let mut all = vec![vec![]];
    let mut frontier: Vec<Vec<(usize, u8)>> = vec![vec![]];
    for _ in 0..maxlen {
        let mut nf = vec![];
        for s in &frontier {
            for k in 0..nkeys {
                for v in 1..=nvals {
                    let mut t = s.clone();
                    t.push((k, v));
                    nf.push(t);
                }
            }
        }
        all.extend(nf.iter().cloned());
        frontier = nf;
    }
    all
}

fn perms(n: usize) -> Vec<Vec<usize>> {
    if n == 0 {
        return vec![vec![]];
    }
    let mut out = vec![];
    for p in perms(n - 1) {
        for i in 0..n {
            let mut q = p.clone();
            q.insert(i, n - 1);
            out.push(q);
        }
    }
    out
}

pub fn dense_maps(o: &mut dyn Write, maxlen: usize) {
    for pl in pair_lists(maxlen, maxlen + 1, 2) {
        let pj: Vec<Value> = pl.iter().map(|(k, v)| json!({"k": k, "v": v})).collect();
        let r = catch_unwind(AssertUnwindSafe(|| DenseNatMap::<usize, u8>::from_iter(pl.clone())));
        match r {
            Err(_) => emit(o, json!({"rec": "dnm_from", "pairs": pj, "ok": false, "values": [], "iter": [], "gets": [], "len": 0})),
            Ok(m) => {
                let values: Vec<u8> = m.values().cloned().collect();
                let iter: Vec<Value> = m.iter().map(|(k, v)| json!({"k": k, "v": v})).collect();
                let gets: Vec<Value> = (0..=maxlen + 1).map(|k| json!(m.get(k).into_iter().cloned().collect::<Vec<u8>>())).collect();
                emit(o, json!({"rec": "dnm_from", "pairs": pj, "ok": true, "values": values, "iter": iter, "gets": gets, "len": m.len()}));
                // insert at every position
                for k in 0..=m.len() + 1 {
                    let mut m2 = m.clone();
                    let r = catch_unwind(AssertUnwindSafe(|| {
                        let old = m2.insert(k, 9);
                        (old, m2.values().cloned().collect::<Vec<u8>>())
                    }));
                    match r {
                        Err(_) => emit(o, json!({"rec": "dnm_insert", "m": values, "k": k, "ok": false, "old": [], "result": []})),
                        Ok((old, res)) => emit(o, json!({"rec": "dnm_insert", "m": values, "k": k, "ok": true,
                            "old": old.into_iter().collect::<Vec<u8>>(), "result": res})),
                    }
                }
                // rewrite under every plan (DenseNatMap keyed by Id)
                let mid: DenseNatMap<Id, u8> = values.iter().cloned().collect();
                for p in perms(values.len()) {
                    let plan = RewritePlan::<Id, _>::from_values_to_sort(&p);
                    let r = catch_unwind(AssertUnwindSafe(|| mid.rewrite(&plan).values().cloned().collect::<Vec<u8>>()));
                    match r {
                        Ok(res) => emit(o, json!({"rec": "dnm_rewrite", "m": values, "plan": p, "ok": true, "result": res})),
                        Err(_) => emit(o, json!({"rec": "dnm_rewrite", "m": values, "plan": p, "ok": false, "result": []})),
                    }
                }
            }
        }
    }
}

fn ids(v: &[usize]) -> Vec<Id> {
    v.iter().map(|i| Id::from(*i)).collect()
}
fn u(i: Id) -> usize {
    usize::from(i)
}

pub fn plans(o: &mut dyn Write, maxlen: usize, m: u32) {
    for vals in seqs_up_to(maxlen, m) {
        let n = vals.len();
        let plan = RewritePlan::<Id, _>::from_values_to_sort(&vals);
        let map: Vec<usize> = (0..n).map(|i| u(plan.rewrite(&Id::from(i)))).collect();
        let re_vals: Vec<u32> = plan.reindex(&vals);
        // a vector of ids pointing "one to the right": element i holds Id((i+1) mod n)
        let ptr: Vec<Id> = (0..n).map(|i| Id::from((i + 1) % n.max(1))).collect();
        let re_ids: Vec<usize> = plan.reindex(&ptr).into_iter().map(u).collect();
        emit(o, json!({"rec": "plan", "vals": vals, "plan": map, "reindex_vals": re_vals,
                       "ptr": ptr.iter().map(|i| u(*i)).collect::<Vec<_>>(), "reindex_ids": re_ids}));
    }
}

fn item_sort(mut v: Vec<Vec<usize>>) -> Vec<Vec<usize>> {
    v.sort();
    v
}

pub fn containers(o: &mut dyn Write, seed: u64, per_plan: usize) {
    let mut rng = StdRng::seed_from_u64(seed);
    for n in 2..=4usize {
        for p in perms(n) {
            let plan = RewritePlan::<Id, _>::from_values_to_sort(&p);
            for _ in 0..per_plan {
                let rid = |rng: &mut StdRng| rng.gen_range(0..n);
                let len = rng.gen_range(0..=4);
                let v: Vec<usize> = (0..len).map(|_| rid(&mut rng)).collect();
                let mut out = |kind: &str, ordered: bool, nid: usize, inp: Vec<Vec<usize>>, outp: Vec<Vec<usize>>, extra: Value| {
                    emit(o, json!({"rec": "rewrite", "kind": kind, "plan": p, "ordered": ordered, "nid": nid,
                                   "input": inp, "output": outp, "extra": extra}));
                };
                // sequences
                let vi = ids(&v);
                out("vec_id", true, 1, v.iter().map(|x| vec![*x]).collect(), vi.rewrite(&plan).iter().map(|x| vec![u(*x)]).collect(), json!({}));
                let dq: VecDeque<Id> = vi.iter().cloned().collect();
                out("deque_id", true, 1, v.iter().map(|x| vec![*x]).collect(), dq.rewrite(&plan).iter().map(|x| vec![u(*x)]).collect(), json!({}));
                // sets
                let bs: BTreeSet<Id> = vi.iter().cloned().collect();
                out("bset_id", false, 1, item_sort(bs.iter().map(|x| vec![u(*x)]).collect()),
                    item_sort(bs.rewrite(&plan).iter().map(|x| vec![u(*x)]).collect()), json!({}));
                let hs: HashableHashSet<Id> = vi.iter().cloned().collect();
                out("hset_id", false, 1, item_sort(hs.iter().map(|x| vec![u(*x)]).collect()),
                    item_sort(hs.rewrite(&plan).iter().map(|x| vec![u(*x)]).collect()), json!({}));
                // maps Id -> Id
                let kv: Vec<(usize, usize)> = (0..rng.gen_range(0..=n)).map(|_| (rid(&mut rng), rid(&mut rng))).collect();
                let bm: BTreeMap<Id, Id> = kv.iter().map(|(k, v)| (Id::from(*k), Id::from(*v))).collect();
                out("bmap_id_id", false, 2, item_sort(bm.iter().map(|(k, v)| vec![u(*k), u(*v)]).collect()),
                    item_sort(bm.rewrite(&plan).iter().map(|(k, v)| vec![u(*k), u(*v)]).collect()), json!({}));
                let hm: HashableHashMap<Id, Id> = bm.iter().map(|(k, v)| (*k, *v)).collect();
                out("hmap_id_id", false, 2, item_sort(hm.iter().map(|(k, v)| vec![u(*k), u(*v)]).collect()),
                    item_sort(hm.rewrite(&plan).iter().map(|(k, v)| vec![u(*k), u(*v)]).collect()), json!({}));
                // option, pair, envelope
                let op: Option<Id> = if rng.gen_bool(0.3) { None } else { Some(Id::from(rid(&mut rng))) };
                out("opt_id", true, 1, op.iter().map(|x| vec![u(*x)]).collect(), op.rewrite(&plan).iter().map(|x| vec![u(*x)]).collect(), json!({}));
                let pr = (Id::from(rid(&mut rng)), Id::from(rid(&mut rng)));
                let pr2 = pr.rewrite(&plan);
                out("pair_id", true, 2, vec![vec![u(pr.0), u(pr.1)]], vec![vec![u(pr2.0), u(pr2.1)]], json!({}));
                let env = Envelope { src: Id::from(rid(&mut rng)), dst: Id::from(rid(&mut rng)), msg: Id::from(rid(&mut rng)) };
                let env2 = env.rewrite(&plan);
                out("envelope", true, 3, vec![vec![u(env.src), u(env.dst), u(env.msg)]], vec![vec![u(env2.src), u(env2.dst), u(env2.msg)]], json!({}));
                // networks with id-bearing messages
                let envs: Vec<Envelope<Id>> = (0..rng.gen_range(0..=4))
                    .map(|_| Envelope { src: Id::from(rid(&mut rng)), dst: Id::from(rid(&mut rng)), msg: Id::from(rid(&mut rng)) })
                    .collect();
                let last = if rng.gen_bool(0.5) { envs.first().cloned() } else { None };
                let nd = Network::new_unordered_duplicating_with_last_msg(envs.clone(), last);
                let proj_dup = |n: &Network<Id>| match n {
                    Network::UnorderedDuplicating(s, l) => (
                        item_sort(s.iter().map(|e| vec![u(e.src), u(e.dst), u(e.msg)]).collect()),
                        l.iter().map(|e| vec![u(e.src), u(e.dst), u(e.msg)]).collect::<Vec<_>>(),
                    ),
                    _ => unreachable!(),
                };
                let (i1, l1) = proj_dup(&nd);
                let (o1, l2) = proj_dup(&nd.rewrite(&plan));
                out("net_dup", false, 3, i1, o1, json!({"last_in": l1, "last_out": l2}));
                let nn = Network::new_unordered_nonduplicating(envs.clone());
                let proj_nn = |n: &Network<Id>| match n {
                    Network::UnorderedNonDuplicating(m) => item_sort(m.iter().map(|(e, c)| vec![u(e.src), u(e.dst), u(e.msg), *c]).collect()),
                    _ => unreachable!(),
                };
                out("net_nondup", false, 3, proj_nn(&nn), proj_nn(&nn.rewrite(&plan)), json!({}));
                let no = Network::new_ordered(envs.clone());
                let proj_no = |n: &Network<Id>| match n {
                    Network::Ordered(m) => item_sort(
                        m.iter()
                            .map(|((s, d), q)| {
                                let mut v = vec![u(*s), u(*d)];
                                v.extend(q.iter().map(|x| u(*x)));
                                v
                            })
                            .collect(),
                    ),
                    _ => unreachable!(),
                };
                out("net_ordered", false, 99, proj_no(&no), proj_no(&no.rewrite(&plan)), json!({}));
                // DenseNatMap<Id, Id>: total map on 0..n-1
                let vals: Vec<Id> = (0..n).map(|_| Id::from(rid(&mut rng))).collect();
                let dm: DenseNatMap<Id, Id> = vals.iter().cloned().collect();
                let dm2 = dm.rewrite(&plan);
                out("dnm_id_id", false, 2, item_sort(dm.iter().map(|(k, v)| vec![u(k), u(*v)]).collect()),
                    item_sort(dm2.iter().map(|(k, v)| vec![u(k), u(*v)]).collect()), json!({}));
            }
        }
    }
}

pub fn main_algebra(out: &str, what: &str, l: usize, m: u32, seed: u64) {
    let mut o = std::io::BufWriter::new(std::fs::File::create(out).expect("create out"));
    std::panic::set_hook(Box::new(|_| {}));
    match what {
        "vc" => vector_clocks(&mut o, l, m),
        "dnm" => dense_maps(&mut o, l),
        "plans" => plans(&mut o, l, m),
        "containers" => containers(&mut o, seed, l),
        w => panic!("algebra {w}"),
    }
    o.flush().unwrap();
}
