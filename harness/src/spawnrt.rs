//! Runs command-interpreter actors under the real UDP runtime (`stateright::actor::spawn`) on loopback, plays a
//! stimulus script in real time and records every handler invocation and every harness send/receive (C17).
//! Also records Id <-> SocketAddrV4 conversions. Records only; TLC validates the trace against SpawnRuntime.tla.

use serde_json::{json, Value};
use stateright::actor::{spawn, Actor, Id, Out};
use std::borrow::Cow;
use std::collections::HashMap;
use std::io::{BufRead, Write};
use std::net::{Ipv4Addr, SocketAddrV4, UdpSocket};
use std::sync::{Arc, Mutex};
use std::time::{Duration, Instant};

struct Shared {
    log: Mutex<Vec<Value>>,
    t0: Instant,
}
impl Shared {
    fn us(&self) -> u64 {
        self.t0.elapsed().as_micros() as u64
    }
    fn push(&self, v: Value) {
        // one mutex = one total order; each entry is pushed at handler ENTRY / before a harness send /
        // after a harness receive, so the order is causally sound
        self.log.lock().unwrap().push(v);
    }
}

#[derive(Clone)]
struct CmdActor {
    idx: usize,
    ids: Vec<Id>,     // actor index -> Id
    harness: Id,
    start_cmds: String,
    timer_cmds: HashMap<u8, String>,
    shared: Arc<Shared>,
}

impl CmdActor {
    fn who(&self, id: Id) -> i64 {
        if id == self.harness {
            return -1;
        }
        self.ids.iter().position(|x| *x == id).map(|x| x as i64).unwrap_or(-2)
    }
    fn exec(&self, cmds: &str, o: &mut Out<Self>) -> Value {
        let v: Value = serde_json::from_str(cmds).unwrap_or(json!([]));
        let mut done = vec![];
        for c in v.as_array().cloned().unwrap_or_default() {
            match c["c"].as_str().unwrap_or("") {
                "send" => {
                    let to = c["to"].as_i64().unwrap_or(-1);
                    let dst = if to < 0 { self.harness } else { self.ids[to as usize] };
                    let p = c["p"].as_str().unwrap_or("[]").to_string();
                    o.send(dst, p.clone());
                    done.push(json!({"c": "send", "to": to, "p": p, "t": 0, "lo": 0, "hi": 0}));
                }
                "set" => {
                    let t = c["t"].as_u64().unwrap_or(0) as u8;
                    let lo = c["lo"].as_u64().unwrap_or(0);
                    let hi = c["hi"].as_u64().unwrap_or(lo);
                    o.set_timer(t, Duration::from_millis(lo)..Duration::from_millis(hi));
                    done.push(json!({"c": "set", "to": 0, "p": "", "t": t, "lo": lo, "hi": hi}));
                }
                "cancel" => {
                    let t = c["t"].as_u64().unwrap_or(0) as u8;
                    o.cancel_timer(t);
                    done.push(json!({"c": "cancel", "to": 0, "p": "", "t": t, "lo": 0, "hi": 0}));
                }
                _ => {}
            }
        }
        json!(done)
    }
}

impl Actor for CmdActor {
    type Msg = String;
    type State = u64;
    type Timer = u8;
    type Random = ();
    fn on_start(&self, id: Id, o: &mut Out<Self>) -> u64 {
        let us = self.shared.us();
        let mut tmp = Out::new();
        let cmds = self.exec(&self.start_cmds, &mut tmp);
        self.shared.push(json!({"ev": "Start", "a": self.idx, "us": us, "calls_before": 0, "src": -3, "payload": "", "t": 0,
                                "cmds": cmds, "id_ok": id == self.ids[self.idx]}));
        o.append(&mut tmp);
        1
    }
    fn on_msg(&self, id: Id, state: &mut Cow<u64>, src: Id, msg: String, o: &mut Out<Self>) {
        let us = self.shared.us();
        let before = **state;
        let mut tmp = Out::new();
        let cmds = self.exec(&msg, &mut tmp);
        self.shared.push(json!({"ev": "Msg", "a": self.idx, "us": us, "calls_before": before, "src": self.who(src), "payload": msg,
                                "t": 0, "cmds": cmds, "id_ok": id == self.ids[self.idx]}));
        *state.to_mut() = before + 1;
        o.append(&mut tmp);
    }
    fn on_timeout(&self, id: Id, state: &mut Cow<u64>, timer: &u8, o: &mut Out<Self>) {
        let us = self.shared.us();
        let before = **state;
        let prog = self.timer_cmds.get(timer).cloned().unwrap_or("[]".into());
        let mut tmp = Out::new();
        let cmds = self.exec(&prog, &mut tmp);
        self.shared.push(json!({"ev": "Timeout", "a": self.idx, "us": us, "calls_before": before, "src": -3, "payload": "", "t": timer,
                                "cmds": cmds, "id_ok": id == self.ids[self.idx]}));
        *state.to_mut() = before + 1;
        o.append(&mut tmp);
    }
}

/// a UDP port the OS considers free right now (ephemeral range, chosen by the OS: concurrent harness processes do not
/// walk the same port sequence)
fn free_udp_port() -> u16 {
    let s = UdpSocket::bind((Ipv4Addr::LOCALHOST, 0)).expect("bind udp port 0");
    s.local_addr().expect("local addr").port()
}

pub fn run_scenario(sc: &Value) -> Value {
    let n = sc["actors"].as_array().map(|a| a.len()).unwrap_or(0);
    let mut ports = vec![];
    // the harness's own socket keeps its port; the actors' ports are bound by spawn() a moment later
    let hsock = UdpSocket::bind((Ipv4Addr::LOCALHOST, 0)).expect("bind harness socket");
    let hport = hsock.local_addr().expect("local addr").port();
    while ports.len() < n {
        let p = free_udp_port();
        if p != hport && !ports.contains(&p) {
            ports.push(p);
        }
    }
    ports.push(hport);
    hsock.set_read_timeout(Some(Duration::from_millis(5))).unwrap();
    let ids: Vec<Id> = (0..n).map(|i| Id::from(SocketAddrV4::new(Ipv4Addr::LOCALHOST, ports[i]))).collect();
    let hid = Id::from(SocketAddrV4::new(Ipv4Addr::LOCALHOST, hport));
    let shared = Arc::new(Shared { log: Mutex::new(vec![]), t0: Instant::now() });
    let actors: Vec<(Id, CmdActor)> = (0..n)
        .map(|i| {
            let a = &sc["actors"][i];
            let mut tc = HashMap::new();
            if let Some(m) = a["timers"].as_object() {
                for (k, v) in m {
                    tc.insert(k.parse::<u8>().unwrap_or(0), v.as_str().unwrap_or("[]").to_string());
                }
            }
            (ids[i], CmdActor { idx: i, ids: ids.clone(), harness: hid, start_cmds: a["start"].as_str().unwrap_or("[]").to_string(),
                                timer_cmds: tc, shared: Arc::clone(&shared) })
        })
        .collect();
    // spawn() never returns: run it on a thread that is leaked when the scenario is over
    std::thread::Builder::new()
        .name("spawn-runtime".into())
        .spawn(move || {
            let _ = spawn::<CmdActor, String>(
                |m: &String| Ok(m.as_bytes().to_vec()),
                |b: &[u8]| {
                    let s = String::from_utf8(b.to_vec()).map_err(|e| e.to_string())?;
                    if s.is_empty() {
                        // the codec encodes the empty command list as zero bytes: an empty datagram is a message
                        return Ok(s);
                    }
                    match serde_json::from_str::<Value>(&s) {
                        Ok(Value::Array(_)) => Ok(s),
                        _ => Err("not a command list".to_string()),
                    }
                },
                actors,
            );
        })
        .unwrap();
    // wait until every actor has started (its socket is bound before on_start runs)
    let t0 = Instant::now();
    loop {
        let started = shared.log.lock().unwrap().iter().filter(|e| e["ev"] == "Start").count();
        if started >= n || t0.elapsed() > Duration::from_secs(3) {
            break;
        }
        std::thread::sleep(Duration::from_micros(200));
    }
    let mut buf = [0u8; 65535];
    let drain = |shared: &Shared, hsock: &UdpSocket, buf: &mut [u8], dur: Duration| {
        let t = Instant::now();
        while t.elapsed() < dur {
            match hsock.recv_from(buf) {
                Ok((cnt, from)) => {
                    let us = shared.us();
                    let from_idx = match from {
                        std::net::SocketAddr::V4(a) => ports.iter().position(|p| *p == a.port()).map(|x| x as i64).unwrap_or(-2),
                        _ => -2,
                    };
                    shared.push(json!({"ev": "HRecv", "a": from_idx, "us": us, "calls_before": 0, "src": from_idx,
                                       "payload": String::from_utf8_lossy(&buf[..cnt]).to_string(), "t": 0, "cmds": [], "id_ok": true}));
                }
                Err(_) => {}
            }
        }
    };
    for step in sc["steps"].as_array().cloned().unwrap_or_default() {
        match step["k"].as_str().unwrap_or("") {
            "send" => {
                let to = step["to"].as_u64().unwrap_or(0) as usize;
                let p = step["p"].as_str().unwrap_or("[]");
                let garbage = step["garbage"].as_bool().unwrap_or(false);
                shared.push(json!({"ev": if garbage { "HSendGarbage" } else { "HSend" }, "a": to, "us": shared.us(), "calls_before": 0, "src": -1,
                                   "payload": p, "t": 0, "cmds": [], "id_ok": true}));
                let _ = hsock.send_to(p.as_bytes(), (Ipv4Addr::LOCALHOST, ports[to]));
            }
            "wait" => drain(&shared, &hsock, &mut buf, Duration::from_millis(step["ms"].as_u64().unwrap_or(10))),
            _ => {}
        }
    }
    drain(&shared, &hsock, &mut buf, Duration::from_millis(sc["settle_ms"].as_u64().unwrap_or(150)));
    let mut events = std::mem::take(&mut *shared.log.lock().unwrap());
    events.push(json!({"ev": "End", "a": 0, "us": shared.us(), "calls_before": 0, "src": -3, "payload": "", "t": 0, "cmds": [], "id_ok": true}));
    json!({"sid": sc["sid"], "n": n, "events": events})
}

pub fn main_spawn(inp: &str, out: &str) {
    let f = std::io::BufReader::new(std::fs::File::open(inp).expect("open input"));
    let mut o = std::io::BufWriter::new(std::fs::File::create(out).expect("create out"));
    let lines: Vec<String> = f.lines().map(|l| l.unwrap()).filter(|l| !l.trim().is_empty()).collect();
    // scenarios are independent (own ports): run a few at a time
    let results = Arc::new(Mutex::new(vec![]));
    let next = Arc::new(std::sync::atomic::AtomicUsize::new(0));
    let lines = Arc::new(lines);
    let mut hs = vec![];
    for _ in 0..6 {
        let (lines, results, next) = (Arc::clone(&lines), Arc::clone(&results), Arc::clone(&next));
        hs.push(std::thread::spawn(move || loop {
            let i = next.fetch_add(1, std::sync::atomic::Ordering::SeqCst);
            if i >= lines.len() {
                break;
            }
            let sc: Value = serde_json::from_str(&lines[i]).expect("scenario");
            let r = run_scenario(&sc);
            results.lock().unwrap().push((i, r));
        }));
    }
    for h in hs {
        h.join().unwrap();
    }
    let mut rs = std::mem::take(&mut *results.lock().unwrap());
    rs.sort_by_key(|x| x.0);
    for (_, r) in rs {
        serde_json::to_writer(&mut o, &r).unwrap();
        o.write_all(b"\n").unwrap();
    }
    o.flush().unwrap();
}

/// Id <-> SocketAddrV4 conversions on ids whose six low bytes come from `bytes`, plus seeded random ones
pub fn main_idaddr(out: &str, seed: u64, nrandom: usize) {
    let mut o = std::io::BufWriter::new(std::fs::File::create(out).expect("create out"));
    let bytes: [u64; 5] = [0, 1, 127, 128, 255];
    let mut vals: Vec<u64> = vec![];
    for a in bytes {
        for b in bytes {
            for c in bytes {
                for d in bytes {
                    for e in bytes {
                        for f in bytes {
                            vals.push((a << 40) | (b << 32) | (c << 24) | (d << 16) | (e << 8) | f);
                        }
                    }
                }
            }
        }
    }
    let mut x = seed | 1;
    for _ in 0..nrandom {
        x ^= x << 13;
        x ^= x >> 7;
        x ^= x << 17;
        vals.push(x & 0xffff_ffff_ffff);
    }
    for v in vals {
        let id = Id::from(v as usize);
        let addr = SocketAddrV4::from(id);
        let back = Id::from(addr);
        // and the other direction from the address components
        let oct = addr.ip().octets();
        let addr2 = SocketAddrV4::new(Ipv4Addr::new(oct[0], oct[1], oct[2], oct[3]), addr.port());
        let id2 = Id::from(addr2);
        let rec = json!({"hi": (v >> 24) as u32, "lo": (v & 0xff_ffff) as u32, "ip": oct, "port": addr.port(),
                         "back_hi": (usize::from(back) as u64 >> 24) as u32, "back_lo": (usize::from(back) as u64 & 0xff_ffff) as u32,
                         "id2_hi": (usize::from(id2) as u64 >> 24) as u32, "id2_lo": (usize::from(id2) as u64 & 0xff_ffff) as u32});
        serde_json::to_writer(&mut o, &rec).unwrap();
        o.write_all(b"\n").unwrap();
    }
    o.flush().unwrap();
}
