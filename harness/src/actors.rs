//! Table-driven actors and whole-graph recording of real `ActorModel`s.
//!
//! A system description (JSON, shared with the TLA+ side) is turned into a real
//! `ActorModel<TableActor, ..>`; its reachable graph is enumerated through the public `Model` API
//! and every state is projected to canonical JSON together with all its enabled actions and their
//! successors. TLC judges the records against specs/ActorSystem.tla. No verdicts here.

use choice::{Choice, Never};
use serde::{Deserialize, Serialize};
use serde_json::{json, Value};
use stateright::actor::ordered_reliable_link::{ActorWrapper, MsgWrapper, StateWrapper, TimerWrapper};
use stateright::actor::register::{RegisterActor, RegisterActorState, RegisterMsg};
use stateright::actor::write_once_register::{WORegisterActor, WORegisterActorState, WORegisterMsg};
use stateright::actor::*;
use stateright::*;
use std::borrow::Cow;
use std::collections::{BTreeMap, HashMap, VecDeque};
use std::fmt::Debug;
use std::hash::{Hash, Hasher};
use std::io::{BufRead, Write};
use std::sync::Arc;

#[derive(Clone, Debug, Deserialize, Serialize)]
pub struct CmdJ {
    pub k: String,
    #[serde(default)]
    pub dst: u64,
    #[serde(default)]
    pub msg: u16,
    #[serde(default)]
    pub t: u8,
    #[serde(default)]
    pub key: String,
    #[serde(default)]
    pub vals: Vec<u8>,
}

#[derive(Clone, Debug, Deserialize, Serialize)]
pub struct EntryJ {
    pub state: u16,
    /// message handlers: -1 = any source
    #[serde(default)]
    pub src: i64,
    #[serde(default)]
    pub msg: u16,
    #[serde(default)]
    pub t: u8,
    #[serde(default)]
    pub val: u8,
    pub touch: bool,
    pub next: u16,
    pub cmds: Vec<CmdJ>,
}

#[derive(Clone, Debug, Deserialize, Serialize)]
pub struct StartJ {
    pub state: u16,
    pub cmds: Vec<CmdJ>,
}

#[derive(Clone, Debug, Deserialize, Serialize)]
pub struct ActorJ {
    pub start: StartJ,
    pub on_msg: Vec<EntryJ>,
    pub on_timer: Vec<EntryJ>,
    pub on_random: Vec<EntryJ>,
}

#[derive(Clone, Debug, Deserialize, Serialize)]
pub struct EnvJ {
    pub src: u64,
    pub dst: u64,
    pub msg: u16,
}

#[derive(Clone, Debug, Deserialize, Serialize)]
pub struct BoundJ {
    #[serde(default)]
    pub net_len: usize,
    #[serde(default)]
    pub hist_len: usize,
}

#[derive(Clone, Debug, Deserialize, Serialize)]
pub struct SysJ {
    pub id: String,
    pub actors: Vec<ActorJ>,
    pub network: String,
    pub lossy: bool,
    pub max_crashes: usize,
    pub init_net: Vec<EnvJ>,
    pub history: String,
    pub boundary: BoundJ,
    #[serde(default)]
    pub wrap: String,
    /// limit on the number of states expanded by the recorder
    #[serde(default)]
    pub max_states: usize,
    /// wrap = "script": the scripts of the Vec<(Id, Msg)> clients
    #[serde(default)]
    pub scripts: Vec<Vec<ScriptJ>>,
    /// wrap = "orl": per actor, whether it ignores even message values
    #[serde(default)]
    pub ignore_even: Vec<bool>,
    /// wrap = "orl": per actor, what it sends when it is handed message `on` (and does not ignore it)
    #[serde(default)]
    pub replies: Vec<Vec<ReplyJ>>,
    /// order of the builder calls: 0 actors .. max_crashes; 1 max_crashes before the actors; 2 one actor, max_crashes, the
    /// remaining actors
    #[serde(default)]
    pub builder_order: u8,
}

#[derive(Clone, Debug, Deserialize, Serialize)]
pub struct ReplyJ {
    pub on: u16,
    pub dst: u64,
    pub msg: u16,
}

#[derive(Clone, Debug, Deserialize, Serialize)]
pub struct ScriptJ {
    pub dst: u64,
    pub msg: u16,
}

/// timers / random values of the recorded models are small ints (or unit)
pub trait SmallInt: Clone + Debug + Eq + Hash {
    fn to_u8(&self) -> u8;
}
impl SmallInt for u8 {
    fn to_u8(&self) -> u8 {
        *self
    }
}
impl SmallInt for () {
    fn to_u8(&self) -> u8 {
        0
    }
}

impl SmallInt for TimerWrapper<()> {
    fn to_u8(&self) -> u8 {
        match self {
            TimerWrapper::Network => 1,
            TimerWrapper::User(_) => 2,
        }
    }
}
impl MsgCodec for MsgWrapper<u16> {
    fn enc(i: u16) -> Self {
        MsgWrapper::Deliver(0, i)
    }
    fn dec(&self) -> Value {
        match self {
            MsgWrapper::Deliver(seq, m) => json!({"k": "deliver", "seq": seq, "m": m}),
            MsgWrapper::Ack(seq) => json!({"k": "ack", "seq": seq, "m": 0}),
        }
    }
}

/// wrapped actor for the ordered-reliable-link checks: sends its script at start, answers what it is handed according to
/// `replies`, and records what it is handed and what it sent
#[derive(Clone, Debug)]
pub struct OrlScript {
    pub sends: Vec<(Id, u16)>,
    /// ignore (no state change, no output) messages with an even value
    pub ignore_even: bool,
    /// (on, dst, msg): when handed `on`, send `msg` to `dst`
    pub replies: Vec<(u16, Id, u16)>,
}
#[derive(Clone, Debug, Default, PartialEq, Eq, Hash)]
pub struct OrlSt {
    pub handed: Vec<(Id, u16)>,
    pub sent: Vec<(Id, u16)>,
}
impl Actor for OrlScript {
    type Msg = u16;
    type State = OrlSt;
    type Timer = ();
    type Random = ();
    fn on_start(&self, _id: Id, o: &mut Out<Self>) -> Self::State {
        let mut st = OrlSt::default();
        for (d, m) in &self.sends {
            o.send(*d, *m);
            st.sent.push((*d, *m));
        }
        st
    }
    fn on_msg(&self, _id: Id, state: &mut Cow<Self::State>, src: Id, msg: u16, o: &mut Out<Self>) {
        if self.ignore_even && msg % 2 == 0 {
            return;
        }
        let st = state.to_mut();
        st.handed.push((src, msg));
        for (on, d, m) in &self.replies {
            if *on == msg {
                o.send(*d, *m);
                st.sent.push((*d, *m));
            }
        }
    }
}

// ---------------------------------------------------------------------------------------------
// wrap = "ids": the same table actors, but local states, message payloads and random values are types that CARRY an
// actor Id (value % 4, when that is the Id of an existing actor) and implement Rewrite<Id> accordingly -- so that
// representative() has embedded Ids to rename (C10).  Timers carry no Ids (the API has no Rewrite bound on them).
pub static EMB_N: std::sync::atomic::AtomicUsize = std::sync::atomic::AtomicUsize::new(0);
fn emb_rewrite<S>(v: u16, plan: &RewritePlan<Id, S>) -> u16 {
    let e = v % 4;
    if (e as usize) < EMB_N.load(std::sync::atomic::Ordering::SeqCst) {
        v - e + usize::from(plan.rewrite(&Id::from(e as usize))) as u16
    } else {
        v
    }
}
#[derive(Clone, Copy, Debug, PartialEq, Eq, Hash, PartialOrd, Ord)]
pub struct IdS(pub u16);
#[derive(Clone, Copy, Debug, PartialEq, Eq, Hash, PartialOrd, Ord)]
pub struct IdR(pub u8);
#[derive(Clone, Copy, Debug, PartialEq, Eq, Hash, PartialOrd, Ord)]
pub struct IdMsg(pub u16);
impl Rewrite<Id> for IdS {
    fn rewrite<S>(&self, plan: &RewritePlan<Id, S>) -> Self {
        IdS(emb_rewrite(self.0, plan))
    }
}
impl Rewrite<Id> for IdR {
    fn rewrite<S>(&self, plan: &RewritePlan<Id, S>) -> Self {
        IdR(emb_rewrite(self.0 as u16, plan) as u8)
    }
}
impl Rewrite<Id> for IdMsg {
    fn rewrite<S>(&self, plan: &RewritePlan<Id, S>) -> Self {
        IdMsg(emb_rewrite(self.0, plan))
    }
}
impl MsgCodec for IdMsg {
    fn enc(i: u16) -> Self {
        IdMsg(i)
    }
    fn dec(&self) -> Value {
        json!(self.0)
    }
}
impl SmallInt for IdR {
    fn to_u8(&self) -> u8 {
        self.0
    }
}
#[derive(Clone, Debug)]
pub struct IdWrap(pub TableActor<IdMsg>);
fn conv_out(from: Out<TableActor<IdMsg>>, to: &mut Out<IdWrap>) {
    for c in from {
        match c {
            Command::Send(d, m) => to.send(d, m),
            Command::SetTimer(t, d) => to.set_timer(t, d),
            Command::CancelTimer(t) => to.cancel_timer(t),
            Command::ChooseRandom(k, vals) => to.choose_random(k, vals.into_iter().map(IdR).collect()),
        }
    }
}
impl Actor for IdWrap {
    type Msg = IdMsg;
    type State = IdS;
    type Timer = u8;
    type Random = IdR;
    fn on_start(&self, id: Id, o: &mut Out<Self>) -> IdS {
        let mut o2 = Out::new();
        let s = self.0.on_start(id, &mut o2);
        conv_out(o2, o);
        IdS(s)
    }
    fn on_msg(&self, id: Id, state: &mut Cow<IdS>, src: Id, msg: IdMsg, o: &mut Out<Self>) {
        let base = state.0;
        let mut c = Cow::Borrowed(&base);
        let mut o2 = Out::new();
        self.0.on_msg(id, &mut c, src, msg, &mut o2);
        if let Cow::Owned(n) = c {
            *state = Cow::Owned(IdS(n));
        }
        conv_out(o2, o);
    }
    fn on_timeout(&self, id: Id, state: &mut Cow<IdS>, timer: &u8, o: &mut Out<Self>) {
        let base = state.0;
        let mut c = Cow::Borrowed(&base);
        let mut o2 = Out::new();
        self.0.on_timeout(id, &mut c, timer, &mut o2);
        if let Cow::Owned(n) = c {
            *state = Cow::Owned(IdS(n));
        }
        conv_out(o2, o);
    }
    fn on_random(&self, id: Id, state: &mut Cow<IdS>, random: &IdR, o: &mut Out<Self>) {
        let base = state.0;
        let mut c = Cow::Borrowed(&base);
        let mut o2 = Out::new();
        self.0.on_random(id, &mut c, &random.0, &mut o2);
        if let Cow::Owned(n) = c {
            *state = Cow::Owned(IdS(n));
        }
        conv_out(o2, o);
    }
}

/// how table messages (small ints) are embedded in the message type of the model
pub trait MsgCodec: Clone + Debug + Eq + Hash + Send + Sync + 'static {
    fn enc(i: u16) -> Self;
    fn dec(&self) -> Value;
}
impl MsgCodec for u16 {
    fn enc(i: u16) -> Self {
        i
    }
    fn dec(&self) -> Value {
        json!(*self)
    }
}
impl MsgCodec for RegisterMsg<u64, char, u16> {
    fn enc(i: u16) -> Self {
        RegisterMsg::Internal(i)
    }
    fn dec(&self) -> Value {
        match self {
            RegisterMsg::Internal(i) => json!(*i),
            other => json!(format!("{:?}", other)),
        }
    }
}
impl MsgCodec for WORegisterMsg<u64, char, u16> {
    fn enc(i: u16) -> Self {
        WORegisterMsg::Internal(i)
    }
    fn dec(&self) -> Value {
        match self {
            WORegisterMsg::Internal(i) => json!(*i),
            other => json!(format!("{:?}", other)),
        }
    }
}

#[derive(Clone, Debug)]
pub struct TableActor<M: MsgCodec> {
    pub t: Arc<ActorJ>,
    _m: std::marker::PhantomData<M>,
}
impl<M: MsgCodec> TableActor<M> {
    pub fn new(a: &ActorJ) -> Self {
        TableActor {
            t: Arc::new(a.clone()),
            _m: Default::default(),
        }
    }
    fn emit(&self, cmds: &[CmdJ], o: &mut Out<Self>) {
        for c in cmds {
            match c.k.as_str() {
                "send" => o.send(Id::from(c.dst as usize), M::enc(c.msg)),
                "set" => o.set_timer(c.t, model_timeout()),
                "cancel" => o.cancel_timer(c.t),
                "choose" => {
                    if c.vals.is_empty() {
                        o.remove_random(c.key.clone())
                    } else {
                        o.choose_random(c.key.clone(), c.vals.clone())
                    }
                }
                k => panic!("cmd {k}"),
            }
        }
    }
}

impl<M: MsgCodec> Actor for TableActor<M> {
    type Msg = M;
    type State = u16;
    type Timer = u8;
    type Random = u8;
    fn on_start(&self, _id: Id, o: &mut Out<Self>) -> u16 {
        self.emit(&self.t.start.cmds, o);
        self.t.start.state
    }
    fn on_msg(&self, _id: Id, state: &mut Cow<u16>, src: Id, msg: M, o: &mut Out<Self>) {
        let m = match msg.dec() {
            Value::Number(n) => n.as_u64().unwrap() as u16,
            _ => return, // not a table message (e.g. a register client message): ignored
        };
        let s = **state;
        let srci = usize::from(src) as i64;
        if let Some(e) = self
            .t
            .on_msg
            .iter()
            .find(|e| e.state == s && e.msg == m && (e.src < 0 || e.src == srci))
        {
            if e.touch {
                *state.to_mut() = e.next;
            }
            self.emit(&e.cmds, o);
        }
    }
    fn on_timeout(&self, _id: Id, state: &mut Cow<u16>, timer: &u8, o: &mut Out<Self>) {
        let s = **state;
        if let Some(e) = self.t.on_timer.iter().find(|e| e.state == s && e.t == *timer) {
            if e.touch {
                *state.to_mut() = e.next;
            }
            self.emit(&e.cmds, o);
        }
    }
    fn on_random(&self, _id: Id, state: &mut Cow<u16>, random: &u8, o: &mut Out<Self>) {
        let s = **state;
        if let Some(e) = self.t.on_random.iter().find(|e| e.state == s && e.val == *random) {
            if e.touch {
                *state.to_mut() = e.next;
            }
            self.emit(&e.cmds, o);
        }
    }
}

/// model configuration: history mode and boundary
#[derive(Clone, Debug)]
pub struct MCfg {
    pub hist: String,
    pub net_len: usize,
    pub hist_len: usize,
}
pub type Hist = Vec<i64>;

fn msg_code<M: MsgCodec>(m: &M) -> i64 {
    match m.dec() {
        Value::Number(n) => n.as_i64().unwrap(),
        _ => -1,
    }
}

fn rec_in<M: MsgCodec>(cfg: &MCfg, h: &Hist, e: Envelope<&M>) -> Option<Hist> {
    match cfg.hist.as_str() {
        "log" | "in_only" => {
            let mut h = h.clone();
            h.extend([1, usize::from(e.src) as i64, usize::from(e.dst) as i64, msg_code(e.msg)]);
            Some(h)
        }
        "count" => {
            let mut h = h.clone();
            h[0] += 1;
            Some(h)
        }
        _ => None,
    }
}
fn rec_out<M: MsgCodec>(cfg: &MCfg, h: &Hist, e: Envelope<&M>) -> Option<Hist> {
    match cfg.hist.as_str() {
        "log" | "out_only" => {
            let mut h = h.clone();
            h.extend([2, usize::from(e.src) as i64, usize::from(e.dst) as i64, msg_code(e.msg)]);
            Some(h)
        }
        "count" => {
            let mut h = h.clone();
            h[1] += 1;
            Some(h)
        }
        _ => None,
    }
}

pub fn init_hist(mode: &str) -> Hist {
    if mode == "count" {
        vec![0, 0]
    } else {
        vec![]
    }
}

pub fn make_network<M: MsgCodec>(sys: &SysJ) -> Network<M> {
    let envs: Vec<Envelope<M>> = sys
        .init_net
        .iter()
        .map(|e| Envelope {
            src: Id::from(e.src as usize),
            dst: Id::from(e.dst as usize),
            msg: M::enc(e.msg),
        })
        .collect();
    match sys.network.as_str() {
        "ordered" => Network::new_ordered(envs),
        "dup" => Network::new_unordered_duplicating(envs),
        "nondup" => Network::new_unordered_nonduplicating(envs),
        k => panic!("network {k}"),
    }
}

pub fn configure<A>(sys: &SysJ, actors: Vec<A>) -> ActorModel<A, MCfg, Hist>
where
    A: Actor,
    A::Msg: MsgCodec,
{
    let cfg = MCfg {
        hist: sys.history.clone(),
        net_len: sys.boundary.net_len,
        hist_len: sys.boundary.hist_len,
    };
    let base = ActorModel::new(cfg, init_hist(&sys.history));
    // the crash budget is the one given, whenever it is given
    let base = match sys.builder_order {
        1 => base.max_crashes(sys.max_crashes).actors(actors),
        2 if !actors.is_empty() => {
            let mut it = actors.into_iter();
            let first = it.next().unwrap();
            base.actor(first).max_crashes(sys.max_crashes).actors(it)
        }
        _ => base.actors(actors).max_crashes(sys.max_crashes),
    };
    base.init_network(make_network::<A::Msg>(sys))
        .lossy_network(if sys.lossy { LossyNetwork::Yes } else { LossyNetwork::No })
        .record_msg_in(rec_in::<A::Msg>)
        .record_msg_out(rec_out::<A::Msg>)
        .within_boundary(|cfg, st| {
            (cfg.net_len == 0 || st.network.len() <= cfg.net_len)
                && (cfg.hist_len == 0 || st.history.len() <= cfg.hist_len)
        })
}

// ---------------------------------------------------------------------------------------------
// projection

fn env_json<M: MsgCodec>(src: Id, dst: Id, msg: &M) -> Value {
    json!({"src": usize::from(src), "dst": usize::from(dst), "msg": msg.dec()})
}

fn sort_vals(mut v: Vec<Value>) -> Vec<Value> {
    v.sort_by_key(|x| x.to_string());
    v
}

pub fn net_json<M: MsgCodec>(n: &Network<M>) -> Value {
    match n {
        Network::UnorderedDuplicating(set, last) => {
            let s = sort_vals(set.iter().map(|e| env_json(e.src, e.dst, &e.msg)).collect());
            let l: Vec<Value> = last.iter().map(|e| env_json(e.src, e.dst, &e.msg)).collect();
            json!({"kind": "dup", "set": s, "last": l, "bag": [], "flows": []})
        }
        Network::UnorderedNonDuplicating(m) => {
            let b = sort_vals(
                m.iter()
                    .map(|(e, c)| json!({"env": env_json(e.src, e.dst, &e.msg), "n": c}))
                    .collect(),
            );
            json!({"kind": "nondup", "set": [], "last": [], "bag": b, "flows": []})
        }
        Network::Ordered(m) => {
            // (canonical: a flow without messages cannot influence anything and is not part of the abstract state; the
            //  record carries their number separately, see empty_flows)
            let f: Vec<Value> = m
                .iter()
                .filter(|(_, q)| !q.is_empty())
                .map(|((s, d), q)| json!({"src": usize::from(*s), "dst": usize::from(*d), "q": q.iter().map(|x| x.dec()).collect::<Vec<_>>()}))
                .collect();
            json!({"kind": "ordered", "set": [], "last": [], "bag": [], "flows": f})
        }
    }
}

pub fn dead_choices<A: Actor, H>(st: &ActorModelState<A, H>) -> usize {
    st.random_choices.iter().map(|c| c.map.values().filter(|v| v.is_empty()).count()).sum()
}

pub fn empty_flows<M: MsgCodec>(n: &Network<M>) -> usize {
    match n {
        Network::Ordered(m) => m.values().filter(|q| q.is_empty()).count(),
        _ => 0,
    }
}

pub fn state_json<A>(st: &ActorModelState<A, Hist>, ps: &dyn Fn(&A::State) -> Value) -> Value
where
    A: Actor,
    A::Msg: MsgCodec,
    A::Timer: SmallInt,
    A::Random: SmallInt,
{
    let actors: Vec<Value> = st.actor_states.iter().map(|s| ps(s)).collect();
    let timers: Vec<Value> = st
        .timers_set
        .iter()
        .map(|t| {
            let mut v: Vec<u8> = t.iter().map(|x| x.to_u8()).collect();
            v.sort();
            json!(v)
        })
        .collect();
    let choices: Vec<Value> = st
        .random_choices
        .iter()
        .map(|c| {
            // (canonical: a key without alternatives enables nothing and is not part of the abstract state; the record
            //  carries the number of such entries separately, see dead_choices)
            let mut v: Vec<(String, Vec<u8>)> =
                c.map.iter().filter(|(_, v)| !v.is_empty()).map(|(k, v)| (k.clone(), v.iter().map(|x| x.to_u8()).collect())).collect();
            v.sort();
            json!(v.into_iter().map(|(k, v)| json!({"key": k, "vals": v})).collect::<Vec<_>>())
        })
        .collect();
    json!({"actors": actors, "net": net_json(&st.network), "timers": timers, "choices": choices,
           "crashed": st.crashed, "hist": st.history})
}

pub fn action_json<M: MsgCodec, T: SmallInt, R: SmallInt>(a: &ActorModelAction<M, T, R>) -> Value {
    let z = json!(0);
    match a {
        ActorModelAction::Deliver { src, dst, msg } => {
            json!({"k": "deliver", "src": usize::from(*src), "dst": usize::from(*dst), "msg": msg.dec(), "id": z, "t": z, "key": "", "val": z})
        }
        ActorModelAction::Drop(e) => {
            json!({"k": "drop", "src": usize::from(e.src), "dst": usize::from(e.dst), "msg": e.msg.dec(), "id": z, "t": z, "key": "", "val": z})
        }
        ActorModelAction::Timeout(id, t) => {
            json!({"k": "timeout", "src": z, "dst": z, "msg": z, "id": usize::from(*id), "t": t.to_u8(), "key": "", "val": z})
        }
        ActorModelAction::Crash(id) => {
            json!({"k": "crash", "src": z, "dst": z, "msg": z, "id": usize::from(*id), "t": z, "key": "", "val": z})
        }
        ActorModelAction::SelectRandom { actor, key, random } => {
            json!({"k": "random", "src": z, "dst": z, "msg": z, "id": usize::from(*actor), "t": z, "key": key, "val": random.to_u8()})
        }
    }
}

/// A `Hasher` that records the byte stream it is fed (C04).
#[derive(Default)]
pub struct RecHasher(pub Vec<u8>);
impl Hasher for RecHasher {
    fn finish(&self) -> u64 {
        0
    }
    fn write(&mut self, bytes: &[u8]) {
        self.0.extend_from_slice(bytes);
    }
}
pub fn stream_of<T: Hash>(v: &T) -> String {
    let mut h = RecHasher::default();
    v.hash(&mut h);
    let mut s = String::with_capacity(h.0.len() * 2);
    for b in h.0 {
        s.push_str(&format!("{:02x}", b));
    }
    s
}

/// the commands of a handler call, in the shape of the table entries (ActorSystem.tla)
fn cmds_json<A>(out: Out<A>) -> Vec<Value>
where
    A: Actor,
    A::Msg: MsgCodec,
    A::Timer: SmallInt,
    A::Random: SmallInt,
{
    out.into_iter()
        .map(|c| match c {
            Command::Send(d, m) => json!({"k": "send", "dst": usize::from(d), "msg": m.dec(), "t": 0, "key": "", "vals": []}),
            Command::SetTimer(t, _) => json!({"k": "set", "dst": 0, "msg": 0, "t": t.to_u8(), "key": "", "vals": []}),
            Command::CancelTimer(t) => json!({"k": "cancel", "dst": 0, "msg": 0, "t": t.to_u8(), "key": "", "vals": []}),
            Command::ChooseRandom(k, v) => json!({"k": "choose", "dst": 0, "msg": 0, "t": 0, "key": k, "vals": v.iter().map(|x| x.to_u8()).collect::<Vec<_>>()}),
        })
        .collect()
}

/// The handler behind an action called DIRECTLY with an already-owned state (`Cow::Owned`), the way `actor::spawn` calls
/// handlers -- the model always hands them a fresh `Cow::Borrowed`. Returns (local state afterwards, commands).
fn owned_call<A>(
    model: &ActorModel<A, MCfg, Hist>,
    s: &ActorModelState<A, Hist>,
    a: &ActorModelAction<A::Msg, A::Timer, A::Random>,
    ps: &dyn Fn(&A::State) -> Value,
) -> Option<Value>
where
    A: Actor,
    A::Msg: MsgCodec,
    A::Timer: SmallInt,
    A::Random: SmallInt,
{
    let (idx, id) = match a {
        ActorModelAction::Deliver { dst, .. } => (usize::from(*dst), *dst),
        ActorModelAction::Timeout(id, _) => (usize::from(*id), *id),
        ActorModelAction::SelectRandom { actor, .. } => (usize::from(*actor), *actor),
        _ => return None,
    };
    if idx >= model.actors.len() || s.crashed[idx] {
        return None;
    }
    let r = std::panic::catch_unwind(std::panic::AssertUnwindSafe(|| {
        let mut st: Cow<A::State> = Cow::Owned((*s.actor_states[idx]).clone());
        let mut out = Out::new();
        match a {
            ActorModelAction::Deliver { src, msg, .. } => model.actors[idx].on_msg(id, &mut st, *src, msg.clone(), &mut out),
            ActorModelAction::Timeout(_, t) => model.actors[idx].on_timeout(id, &mut st, t, &mut out),
            ActorModelAction::SelectRandom { random, .. } => model.actors[idx].on_random(id, &mut st, random, &mut out),
            _ => {}
        }
        json!({"actor": idx, "after": ps(&st), "cmds": cmds_json(out), "panicked": false})
    }));
    Some(r.unwrap_or_else(|_| json!({"actor": idx, "after": 0, "cmds": [], "panicked": true})))
}

/// Enumerates the reachable graph of a real model through the public Model API (identity of states
/// = canonical projection, NOT the model's own Hash/Eq) and writes one record per state.
pub fn record_graph<A>(
    sysi: usize,
    sys: &SysJ,
    model: &ActorModel<A, MCfg, Hist>,
    ps: &dyn Fn(&A::State) -> Value,
    out: &mut dyn Write,
    real_counts: bool,
    rep: Option<&dyn Fn(&ActorModelState<A, Hist>) -> ActorModelState<A, Hist>>,
) where
    A: Actor + Clone + Send + Sync + 'static,
    A::Msg: MsgCodec,
    A::Timer: SmallInt + Send + Sync,
    A::Random: SmallInt + Send + Sync,
    A::State: Send + Sync + Eq,
{
    let max_states = if sys.max_states > 0 { sys.max_states } else { 2000 };
    let mut seen: HashMap<String, usize> = HashMap::new();
    // the first real state seen for every canonical projection: == of the real states must agree with the projection
    let mut first: Vec<(String, ActorModelState<A, Hist>)> = Vec::new();
    let mut queue: VecDeque<ActorModelState<A, Hist>> = VecDeque::new();
    let inits = model.init_states();
    let mut nrec = 0usize;
    let mut truncated = false;
    let mut init_keys = vec![];
    for s in inits {
        let pj = state_json(&s, ps);
        let key = pj.to_string();
        init_keys.push(key.clone());
        if model.within_boundary(&s) && !seen.contains_key(&key) {
            seen.insert(key, seen.len());
            queue.push_back(s);
        } else if !model.within_boundary(&s) {
            // still emit a record so that the judge sees the initial state
            let rec = json!({"sys": sysi, "init": true, "inb": false, "expanded": false, "state": pj, "edges": [],
                "ignored": [], "next_steps_ok": true, "len": s.network.len(), "iter_all": [], "iter_deliv": [],
                "stream": stream_of(&s), "iter_all_truncated": false, "has_rep": false, "rep_panicked": false, "rep": pj,
                "empty_flows": empty_flows(&s.network)});
            serde_json::to_writer(&mut *out, &rec).unwrap();
            out.write_all(b"\n").unwrap();
        }
    }
    while let Some(s) = queue.pop_front() {
        if nrec >= max_states {
            truncated = true;
            break;
        }
        nrec += 1;
        let pj = state_json(&s, ps);
        let key = pj.to_string();
        let mut actions = Vec::new();
        model.actions(&s, &mut actions);
        let mut edges = vec![];
        let mut ignored = vec![];
        let mut zipped: Vec<(Value, Value)> = vec![];
        let mut eq_ok = true;
        let mut owned: Vec<Value> = vec![];
        for a in actions {
            let aj = action_json(&a);
            if let Some(o) = owned_call(model, &s, &a, ps) {
                owned.push(json!({"a": aj, "r": o}));
            }
            match model.next_state(&s, a) {
                None => ignored.push(aj),
                Some(n) => {
                    let nj = state_json(&n, ps);
                    let inb = model.within_boundary(&n);
                    zipped.push((aj.clone(), nj.clone()));
                    edges.push(json!({"a": aj, "to": nj, "inb": inb}));
                    if inb {
                        let k = nj.to_string();
                        // (==) in both orders against the stored representatives of the most recent projections
                        let lo = first.len().saturating_sub(48);
                        for (k2, st2) in &first[lo..] {
                            let same = *k2 == k;
                            if (n == *st2) != same || (*st2 == n) != same {
                                eq_ok = false;
                            }
                        }
                        if !seen.contains_key(&k) {
                            seen.insert(k.clone(), seen.len());
                            first.push((k, n.clone()));
                            queue.push_back(n);
                        }
                    }
                }
            }
        }
        // Model::next_steps must agree with actions/next_state
        let ns: Vec<(Value, Value)> = model
            .next_steps(&s)
            .into_iter()
            .map(|(a, n)| (action_json(&a), state_json(&n, ps)))
            .collect();
        let next_steps_ok = ns == zipped;
        let cap = 4 * (s.network.len() + 2);
        let mut it = s.network.iter_all();
        let mut iter_all = vec![];
        let mut iter_all_truncated = false;
        loop {
            match it.next() {
                None => break,
                Some(e) => {
                    if iter_all.len() >= cap {
                        iter_all_truncated = true;
                        break;
                    }
                    iter_all.push(env_json(e.src, e.dst, e.msg));
                }
            }
        }
        let iter_deliv: Vec<Value> = s.network.iter_deliverable().map(|e| env_json(e.src, e.dst, e.msg)).collect();
        // C10: the provided representative of the state (where the state type supports it)
        let (has_rep, rep_panicked, rep_json) = match rep {
            None => (false, false, pj.clone()),
            Some(f) => match std::panic::catch_unwind(std::panic::AssertUnwindSafe(|| f(&s))) {
                Ok(r) => (true, false, state_json(&r, ps)),
                Err(_) => (true, true, pj.clone()),
            },
        };
        let rec = json!({"sys": sysi, "init": init_keys.contains(&key), "inb": true, "expanded": true, "state": pj,
            "edges": edges, "ignored": ignored, "next_steps_ok": next_steps_ok, "len": s.network.len(),
            "iter_all": iter_all, "iter_all_truncated": iter_all_truncated, "iter_deliv": iter_deliv,
            "stream": stream_of(&s), "has_rep": has_rep, "rep_panicked": rep_panicked, "rep": rep_json,
            "empty_flows": empty_flows(&s.network), "dead_choices": dead_choices(&s), "eq_ok": eq_ok, "owned": owned});
        serde_json::to_writer(&mut *out, &rec).unwrap();
        out.write_all(b"\n").unwrap();
    }
    // summary record: what the real checkers count on this model
    let (mut bfs_unique, mut dfs_unique, mut bfs_done, mut dfs_done) = (0usize, 0usize, false, false);
    if real_counts && !truncated {
        let target = 20 * max_states;
        // a never-discovered property keeps the checkers exploring until the frontier is empty
        let model = model.clone().property(Expectation::Always, "keep", |_, _| true);
        let c = model.clone().checker().target_state_count(target).spawn_bfs().join();
        bfs_unique = c.unique_state_count();
        bfs_done = c.is_done() && c.state_count() < target;
        let c = model.clone().checker().target_state_count(target).spawn_dfs().join();
        dfs_unique = c.unique_state_count();
        dfs_done = c.is_done() && c.state_count() < target;
    }
    let rec = json!({"sys": sysi, "summary": true, "recorded": nrec, "known": seen.len(), "truncated": truncated,
        "bfs_unique": bfs_unique, "dfs_unique": dfs_unique, "bfs_done": bfs_done, "dfs_done": dfs_done,
        "real_counts": real_counts && !truncated});
    serde_json::to_writer(&mut *out, &rec).unwrap();
    out.write_all(b"\n").unwrap();
}

fn ps_plain(s: &u16) -> Value {
    json!(*s)
}


/// the link-wrapped scripted actors of an "orl" system
pub fn orl_actors(sys: &SysJ) -> Vec<ActorWrapper<OrlScript>> {
    sys.scripts
        .iter()
        .enumerate()
        .map(|(i, sc)| ActorWrapper::with_default_timeout(OrlScript {
            sends: sc.iter().map(|e| (Id::from(e.dst as usize), e.msg)).collect(),
            ignore_even: sys.ignore_even.get(i).cloned().unwrap_or(false),
            replies: sys.replies.get(i).map(|v| v.iter().map(|r| (r.on, Id::from(r.dst as usize), r.msg)).collect()).unwrap_or_default(),
        }))
        .collect()
}

/// projection of the state of a link-wrapped scripted actor
pub fn orl_ps(s: &StateWrapper<u16, OrlSt>) -> Value {
                let (pending, last, handed, next) = s.verif_parts();
                let mut p: Vec<(u64, usize, u16)> = pending.into_iter().map(|(q, d, m)| (q, usize::from(d), m)).collect();
                p.sort();
                let mut l: Vec<(usize, u64)> = last.into_iter().map(|(k, v)| (usize::from(k), v)).collect();
                l.sort();
                // `next` is the Debug rendering of the per-destination sequencers, "{Id(1): 3, ..}": the integers pair up
                let nums: Vec<u64> = next
                    .split(|c: char| !c.is_ascii_digit())
                    .filter(|t| !t.is_empty())
                    .filter_map(|t| t.parse().ok())
                    .collect();
                let mut nx: Vec<(u64, u64)> = nums.chunks(2).filter(|c| c.len() == 2).map(|c| (c[0], c[1])).collect();
                nx.sort();
                json!({"next": next, "next_seq": nx.into_iter().map(|(d, n)| json!({"dst": d, "n": n})).collect::<Vec<_>>(),
                       "pending": p.into_iter().map(|(q, d, m)| json!({"seq": q, "dst": d, "m": m})).collect::<Vec<_>>(),
                       "last": l.into_iter().map(|(k, v)| json!({"src": k, "seq": v})).collect::<Vec<_>>(),
                       "handed": handed.handed.iter().map(|(sr, m)| json!({"src": usize::from(*sr), "m": m})).collect::<Vec<_>>(),
                       "sent": handed.sent.iter().map(|(d, m)| json!({"dst": usize::from(*d), "m": m})).collect::<Vec<_>>()})
}

pub fn record_system(sysi: usize, sys: &SysJ, out: &mut dyn Write, real_counts: bool) {
    match sys.wrap.as_str() {
        "" | "none" => {
            let actors: Vec<TableActor<u16>> = sys.actors.iter().map(TableActor::new).collect();
            let m = configure(sys, actors);
            let rep = |s: &ActorModelState<TableActor<u16>, Hist>| s.representative();
            record_graph(sysi, sys, &m, &ps_plain, out, real_counts, Some(&rep));
        }
        "ids" => {
            EMB_N.store(sys.actors.len(), std::sync::atomic::Ordering::SeqCst);
            let actors: Vec<IdWrap> = sys.actors.iter().map(|a| IdWrap(TableActor::new(a))).collect();
            let m = configure(sys, actors);
            let rep = |s: &ActorModelState<IdWrap, Hist>| s.representative();
            record_graph(sysi, sys, &m, &|s: &IdS| json!(s.0), out, real_counts, Some(&rep));
        }
        "choice_l" => {
            // Choice<T, Never>
            let actors: Vec<Choice<TableActor<u16>, Never>> =
                sys.actors.iter().map(|a| Choice::new(TableActor::new(a))).collect();
            let m = configure(sys, actors);
            record_graph(sysi, sys, &m, &|s: &Choice<u16, Never>| json!(*s.get()), out, real_counts, None);
        }
        "choice_lr" => {
            // Choice<T, Choice<T, Never>>: even actors on the left, odd ones on the right
            type C2 = Choice<TableActor<u16>, Choice<TableActor<u16>, Never>>;
            let actors: Vec<C2> = sys
                .actors
                .iter()
                .enumerate()
                .map(|(i, a)| {
                    if i % 2 == 0 {
                        Choice::new(TableActor::new(a))
                    } else {
                        Choice::new(TableActor::new(a)).or()
                    }
                })
                .collect();
            let m = configure(sys, actors);
            let ps = |s: &Choice<u16, Choice<u16, Never>>| match s {
                Choice::L(x) => json!(*x),
                Choice::R(r) => json!(*r.get()),
            };
            record_graph(sysi, sys, &m, &ps, out, real_counts, None);
        }
        "choice_lrr" => {
            // three positions: L, R.L, R.R.L
            type C3 = Choice<TableActor<u16>, Choice<TableActor<u16>, Choice<TableActor<u16>, Never>>>;
            let actors: Vec<C3> = sys
                .actors
                .iter()
                .enumerate()
                .map(|(i, a)| match i % 3 {
                    0 => Choice::new(TableActor::new(a)),
                    1 => Choice::new(TableActor::new(a)).or(),
                    _ => Choice::new(TableActor::new(a)).or().or(),
                })
                .collect();
            let m = configure(sys, actors);
            let ps = |s: &Choice<u16, Choice<u16, Choice<u16, Never>>>| match s {
                Choice::L(x) => json!(*x),
                Choice::R(Choice::L(x)) => json!(*x),
                Choice::R(Choice::R(r)) => json!(*r.get()),
            };
            record_graph(sysi, sys, &m, &ps, out, real_counts, None);
        }
        "register_server" => {
            type RA = RegisterActor<TableActor<RegisterMsg<u64, char, u16>>>;
            let actors: Vec<RA> = sys.actors.iter().map(|a| RegisterActor::Server(TableActor::new(a))).collect();
            let m = configure(sys, actors);
            let ps = |s: &RegisterActorState<u16, u64>| match s {
                RegisterActorState::Server(x) => json!(*x),
                other => json!(format!("{:?}", other)),
            };
            record_graph(sysi, sys, &m, &ps, out, real_counts, None);
        }
        "wo_register_server" => {
            type WA = WORegisterActor<TableActor<WORegisterMsg<u64, char, u16>>>;
            let actors: Vec<WA> = sys.actors.iter().map(|a| WORegisterActor::Server(TableActor::new(a))).collect();
            let m = configure(sys, actors);
            let ps = |s: &WORegisterActorState<u16, u64>| match s {
                WORegisterActorState::Server(x) => json!(*x),
                other => json!(format!("{:?}", other)),
            };
            record_graph(sysi, sys, &m, &ps, out, real_counts, None);
        }
        "script" => {
            let actors: Vec<Vec<(Id, u16)>> = sys
                .scripts
                .iter()
                .map(|sc| sc.iter().map(|e| (Id::from(e.dst as usize), e.msg)).collect())
                .collect();
            let m = configure(sys, actors);
            record_graph(sysi, sys, &m, &|s: &usize| json!(*s), out, real_counts, None);
        }
        "orl" => {
            let actors = orl_actors(sys);
            let m = configure(sys, actors);
            record_graph(sysi, sys, &m, &orl_ps, out, real_counts, None);
        }
        w => panic!("wrap {w}"),
    }
}

/// input: ndjson of SysJ; output: ndjson of state records + one summary per system
pub fn main_actors(inp: &str, out: &str, real_counts: bool) {
    let f = std::io::BufReader::new(std::fs::File::open(inp).expect("open input"));
    let mut o = std::io::BufWriter::new(std::fs::File::create(out).expect("create out"));
    std::panic::set_hook(Box::new(|_| {}));
    for (i, line) in f.lines().enumerate() {
        let line = line.unwrap();
        if line.trim().is_empty() {
            continue;
        }
        let sys: SysJ = serde_json::from_str(&line).expect("sys json");
        let mut buf: Vec<u8> = Vec::new();
        let r = std::panic::catch_unwind(std::panic::AssertUnwindSafe(|| {
            record_system(i + 1, &sys, &mut buf, real_counts);
        }));
        if r.is_err() {
            // a panic inside the real model is data
            buf.clear();
            let rec = json!({"sys": i + 1, "summary": true, "panicked": true, "recorded": 0, "known": 0,
                "truncated": false, "bfs_unique": 0, "dfs_unique": 0, "bfs_done": false, "dfs_done": false,
                "real_counts": false});
            serde_json::to_writer(&mut buf, &rec).unwrap();
            buf.push(b'\n');
        }
        o.write_all(&buf).unwrap();
    }
    o.flush().unwrap();
    let _ = BTreeMap::<u8, u8>::new();
}
