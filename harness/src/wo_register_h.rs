//! Write-once register-harness models (C18b; generated from register_h.rs by type substitution)
//! Register-harness models (C18b): RegisterActor clients + record_invocations / record_returns around an arbitrary
//! at-most-once server, enumerated through the Model API. Every reachable state is projected (client states, the
//! full log of client-visible messages, the recorded consistency-tester history). TLC judges; no verdicts here.

use serde_json::{json, Value};
use stateright::actor::write_once_register::{WORegisterActor as RegisterActor, WORegisterActorState as RegisterActorState, WORegisterMsg as RegisterMsg};
use stateright::actor::*;
use stateright::semantics::write_once_register::WORegister as Register;
use stateright::semantics::LinearizabilityTester;
use stateright::*;
use std::borrow::Cow;
use std::collections::{HashMap, VecDeque};
use std::io::{BufRead, Write};

type Msg = RegisterMsg<u64, char, ()>;

/// answers each request at most once, at any later time, with any value -- or never
#[derive(Clone, Debug)]
pub struct ChaosServer;

#[derive(Clone, Debug, PartialEq, Eq, Hash)]
pub struct ChaosState {
    seen: Vec<(u64, u64)>, // (src, request id) ever received
}

impl Actor for ChaosServer {
    type Msg = Msg;
    type State = ChaosState;
    type Timer = ();
    /// (src, request id, reply code): 0 never, 1 PutOk, 2 GetOk('A'), 3 GetOk('B'), 4 GetOk('\0'), 5 PutFail
    type Random = (u64, u64, u8);
    fn on_start(&self, _id: Id, _o: &mut Out<Self>) -> ChaosState {
        ChaosState { seen: vec![] }
    }
    fn on_msg(&self, _id: Id, state: &mut Cow<ChaosState>, src: Id, msg: Msg, o: &mut Out<Self>) {
        let s = usize::from(src) as u64;
        let (req, is_put) = match msg {
            RegisterMsg::Put(r, _) => (r, true),
            RegisterMsg::Get(r) => (r, false),
            _ => return,
        };
        if state.seen.contains(&(s, req)) {
            return; // a duplicate of a request already taken: at most one answer per request
        }
        let st = state.to_mut();
        st.seen.push((s, req));
        st.seen.sort();
        let choices: Vec<(u64, u64, u8)> = if is_put { vec![(s, req, 0), (s, req, 1), (s, req, 5)] } else { vec![(s, req, 0), (s, req, 2), (s, req, 3), (s, req, 4)] };
        o.choose_random(format!("{}:{}", s, req), choices);
    }
    fn on_random(&self, _id: Id, _state: &mut Cow<ChaosState>, random: &(u64, u64, u8), o: &mut Out<Self>) {
        let (s, req, code) = *random;
        let dst = Id::from(s as usize);
        match code {
            1 => o.send(dst, RegisterMsg::PutOk(req)),
            2 => o.send(dst, RegisterMsg::GetOk(req, 'A')),
            3 => o.send(dst, RegisterMsg::GetOk(req, 'B')),
            4 => o.send(dst, RegisterMsg::GetOk(req, '\0')),
            5 => o.send(dst, RegisterMsg::PutFail(req)),
            _ => {}
        }
    }
}

type Tester = LinearizabilityTester<Id, Register<char>>;
type H = (Vec<i64>, Tester);

fn kind_of(m: &Msg) -> (i64, i64, i64) {
    match m {
        RegisterMsg::Put(r, v) => (1, *r as i64, *v as i64),
        RegisterMsg::Get(r) => (2, *r as i64, 0),
        RegisterMsg::PutOk(r) => (3, *r as i64, 0),
        RegisterMsg::GetOk(r, v) => (4, *r as i64, *v as i64),
        RegisterMsg::PutFail(r) => (5, *r as i64, 0),
        RegisterMsg::Internal(_) => (0, 0, 0),
    }
}

fn rec_out(cfg: &(), h: &H, e: Envelope<&Msg>) -> Option<H> {
    let (k, r, v) = kind_of(e.msg);
    let mut log = h.0.clone();
    log.extend([2, usize::from(e.src) as i64, usize::from(e.dst) as i64, k, r, v]);
    // the library's own hook on the tester half
    let t = RegisterMsg::record_invocations(cfg, &h.1, e).unwrap_or_else(|| h.1.clone());
    Some((log, t))
}
fn rec_in(cfg: &(), h: &H, e: Envelope<&Msg>) -> Option<H> {
    let (k, r, v) = kind_of(e.msg);
    let mut log = h.0.clone();
    log.extend([1, usize::from(e.src) as i64, usize::from(e.dst) as i64, k, r, v]);
    let t = RegisterMsg::record_returns(cfg, &h.1, e).unwrap_or_else(|| h.1.clone());
    Some((log, t))
}

fn opj(v: &Value) -> Value {
    // RegisterOp: "Read" | {"Write": "A"} ; RegisterRet: "WriteOk" | {"ReadOk": "A"}
    if let Some(s) = v.as_str() {
        return match s {
            "Read" => json!({"k": "r", "v": 0}),
            "WriteOk" => json!({"k": "wok", "v": 0}),
            "WriteFail" => json!({"k": "wfail", "v": 0}),
            x => json!({"k": x, "v": 0}),
        };
    }
    if let Some(o) = v.as_object() {
        if let Some(c) = o.get("Write") {
            return json!({"k": "w", "v": c.as_str().and_then(|s| s.chars().next()).map(|c| c as u32).unwrap_or(0)});
        }
        if let Some(c) = o.get("ReadOk") {
            return json!({"k": "rok", "v": c.as_str().and_then(|s| s.chars().next()).map(|c| c as u32).unwrap_or(0)});
        }
    }
    json!({"k": "?", "v": 0})
}

fn tester_json(t: &Tester) -> Value {
    let v = serde_json::to_value(t).unwrap_or(json!({}));
    let mut threads: Vec<Value> = vec![];
    let mut ids: Vec<String> = vec![];
    if let Some(m) = v["history_by_thread"].as_object() {
        ids.extend(m.keys().cloned());
    }
    if let Some(m) = v["in_flight_by_thread"].as_object() {
        for k in m.keys() {
            if !ids.contains(k) {
                ids.push(k.clone());
            }
        }
    }
    ids.sort_by_key(|s| s.parse::<u64>().unwrap_or(0));
    for id in ids {
        let completed: Vec<Value> = v["history_by_thread"][&id]
            .as_array()
            .map(|a| a.iter().map(|c| json!({"op": opj(&c[1]), "ret": opj(&c[2])})).collect())
            .unwrap_or_default();
        let inflight: Vec<Value> = match v["in_flight_by_thread"].get(&id) {
            Some(x) if !x.is_null() => vec![opj(&x[1])],
            _ => vec![],
        };
        threads.push(json!({"t": id.parse::<u64>().unwrap_or(0), "completed": completed, "inflight": inflight}));
    }
    json!({"valid": v["is_valid_history"], "threads": threads, "len": t.len()})
}

fn state_json(st: &ActorModelState<RegisterActor<ChaosServer>, H>) -> Value {
    let actors: Vec<Value> = st
        .actor_states
        .iter()
        .map(|a| match &**a {
            RegisterActorState::Client { awaiting, op_count } => json!({"client": true, "awaiting": awaiting.map(|x| vec![x]).unwrap_or_default(), "op_count": op_count, "seen": []}),
            RegisterActorState::Server(s) => json!({"client": false, "awaiting": [], "op_count": 0, "seen": s.seen.iter().map(|(a, b)| vec![*a, *b]).collect::<Vec<_>>()}),
        })
        .collect();
    let log: Vec<Value> = st.history.0.chunks(6).map(|c| json!({"dir": c[0], "src": c[1], "dst": c[2], "kind": c[3], "req": c[4], "val": c[5]})).collect();
    json!({"actors": actors, "log": log, "tester": tester_json(&st.history.1), "net_len": st.network.len()})
}

pub fn main_wo_register(inp: &str, out: &str) {
    let f = std::io::BufReader::new(std::fs::File::open(inp).expect("open input"));
    let mut o = std::io::BufWriter::new(std::fs::File::create(out).expect("create out"));
    std::panic::set_hook(Box::new(|_| {}));
    for (si, line) in f.lines().enumerate() {
        let line = line.unwrap();
        if line.trim().is_empty() {
            continue;
        }
        let sys: Value = serde_json::from_str(&line).expect("json");
        let servers = sys["servers"].as_u64().unwrap_or(1) as usize;
        let clients = sys["clients"].as_u64().unwrap_or(1) as usize;
        let put_count = sys["put_count"].as_u64().unwrap_or(1) as usize;
        let net = sys["network"].as_str().unwrap_or("dup");
        let lossy = sys["lossy"].as_bool().unwrap_or(false);
        let max_states = sys["max_states"].as_u64().unwrap_or(4000) as usize;
        let mut actors: Vec<RegisterActor<ChaosServer>> = vec![];
        for _ in 0..servers {
            actors.push(RegisterActor::Server(ChaosServer));
        }
        for _ in 0..clients {
            actors.push(RegisterActor::Client { put_count, server_count: servers });
        }
        let network: Network<Msg> = match net {
            "ordered" => Network::new_ordered([]),
            "nondup" => Network::new_unordered_nonduplicating([]),
            _ => Network::new_unordered_duplicating([]),
        };
        let model: ActorModel<RegisterActor<ChaosServer>, (), H> = ActorModel::new((), (vec![], Tester::new(Register(None))))
            .actors(actors)
            .init_network(network)
            .lossy_network(if lossy { LossyNetwork::Yes } else { LossyNetwork::No })
            .record_msg_out(rec_out)
            .record_msg_in(rec_in);
        let mut seen: HashMap<String, ()> = HashMap::new();
        let mut q: VecDeque<ActorModelState<RegisterActor<ChaosServer>, H>> = VecDeque::new();
        let r = std::panic::catch_unwind(std::panic::AssertUnwindSafe(|| {
            let mut recs: Vec<Value> = vec![];
            for s in model.init_states() {
                let key = format!("{}|{:?}|{:?}", state_json(&s), s.random_choices, s.network);
                if seen.insert(key, ()).is_none() {
                    q.push_back(s);
                }
            }
            let mut n = 0;
            let mut truncated = false;
            while let Some(s) = q.pop_front() {
                if n >= max_states {
                    truncated = true;
                    break;
                }
                n += 1;
                recs.push(json!({"sys": si + 1, "state": state_json(&s)}));
                for (_a, t) in model.next_steps(&s) {
                    if t.network.len() > 4 {
                        continue;
                    }
                    let key = format!("{}|{:?}|{:?}", state_json(&t), t.random_choices, t.network);
                    if seen.insert(key, ()).is_none() {
                        q.push_back(t);
                    }
                }
            }
            (recs, truncated)
        }));
        match r {
            Ok((recs, truncated)) => {
                for rec in &recs {
                    serde_json::to_writer(&mut o, rec).unwrap();
                    o.write_all(b"\n").unwrap();
                }
                serde_json::to_writer(&mut o, &json!({"sys": si + 1, "summary": true, "states": recs.len(), "truncated": truncated, "panicked": false})).unwrap();
                o.write_all(b"\n").unwrap();
            }
            Err(_) => {
                serde_json::to_writer(&mut o, &json!({"sys": si + 1, "summary": true, "states": 0, "truncated": false, "panicked": true})).unwrap();
                o.write_all(b"\n").unwrap();
            }
        }
    }
    o.flush().unwrap();
}
