//! Drives the real JobBroker (through the cfg-guarded facade) with several free-running threads that follow
//! small scripts, and records the market's event log. TLC validates the log against JobMarketTrace.tla.
use serde::Deserialize;
use serde_json::{json, Value};
use stateright::verif::Broker;
use std::collections::VecDeque;
use std::io::{BufRead, Write};
use std::sync::atomic::{AtomicU32, Ordering};
use std::sync::Arc;
use std::time::{Duration, Instant, SystemTime};

#[derive(Clone, Debug, Deserialize)]
pub struct Op {
    pub op: String,
    #[serde(default)]
    pub a: usize,
    #[serde(default)]
    pub b: usize,
}

#[derive(Clone, Debug, Deserialize)]
pub struct Scenario {
    pub sid: u64,
    pub threads: usize,
    #[serde(default)]
    pub init: usize,
    #[serde(default)]
    pub timeout_ms: u64,
    pub scripts: Vec<Vec<Op>>,
    #[serde(default)]
    pub seed: u64,
}

fn jitter(x: &mut u64) {
    *x ^= *x << 13;
    *x ^= *x >> 7;
    *x ^= *x << 17;
    match *x % 8 {
        0..=3 => {}
        4 | 5 => std::thread::yield_now(),
        6 => std::thread::sleep(Duration::from_micros(20 + (*x >> 8) % 80)),
        _ => std::thread::sleep(Duration::from_micros(200 + (*x >> 8) % 400)),
    }
}

pub fn run_scenario(sc: &Scenario) -> Value {
    crate::hooks::start_capture();
    let ids = Arc::new(AtomicU32::new(1));
    let close_at = if sc.timeout_ms > 0 { Some(SystemTime::now() + Duration::from_millis(sc.timeout_ms)) } else { None };
    let mut main = Broker::new(sc.threads, close_at);
    if sc.init > 0 {
        let jobs: VecDeque<u32> = (0..sc.init).map(|_| ids.fetch_add(1, Ordering::SeqCst)).collect();
        main.push(jobs);
    }
    let mut handles = vec![];
    for (i, script) in sc.scripts.iter().enumerate() {
        let mut b = main.clone_broker();
        let script = script.clone();
        let ids = Arc::clone(&ids);
        let mut rng = sc.seed.wrapping_mul(6364136223846793005).wrapping_add(i as u64 + 1) | 1;
        handles.push(
            std::thread::Builder::new()
                .name(format!("w{}", i))
                .spawn(move || {
                    let mut local: VecDeque<u32> = VecDeque::new();
                    for op in script {
                        jitter(&mut rng);
                        match op.op.as_str() {
                            "pop" => {
                                local = b.pop();
                                if local.is_empty() {
                                    return; // like a worker: nothing more to do
                                }
                            }
                            "push" => {
                                let jobs: VecDeque<u32> = (0..op.a).map(|_| ids.fetch_add(1, Ordering::SeqCst)).collect();
                                b.push(jobs);
                            }
                            "work" => {
                                for _ in 0..op.a.min(local.len()) {
                                    local.pop_back();
                                }
                                for _ in 0..op.b {
                                    local.push_front(ids.fetch_add(1, Ordering::SeqCst));
                                }
                            }
                            "split" => b.split_and_push(&mut local),
                            "sleep" => std::thread::sleep(Duration::from_millis(op.a as u64)),
                            "exit" => return,
                            o => panic!("op {o}"),
                        }
                    }
                })
                .unwrap(),
        );
    }
    let t0 = Instant::now();
    let mut hung = 0;
    for h in handles {
        loop {
            if h.is_finished() {
                let _ = h.join();
                break;
            }
            if t0.elapsed() > Duration::from_secs(6) {
                hung += 1;
                break;
            }
            std::thread::sleep(Duration::from_micros(200));
        }
    }
    // (a thread that never returned may hold the market's lock for good: do not ask the market anything then)
    let closed = if hung == 0 { main.is_closed() } else { false };
    let mut events = crate::hooks::stop_capture();
    events.push(json!({"ev": "End", "thread": "", "arg1": hung, "arg2": 0, "open": false, "thread_count": 0,
                       "open_count": 0, "batches": []}));
    if hung > 0 {
        std::mem::forget(main);
    }
    json!({"sid": sc.sid, "hung": hung, "is_closed": closed, "events": events})
}

pub fn main_market(inp: &str, out: &str) {
    let f = std::io::BufReader::new(std::fs::File::open(inp).expect("open input"));
    let mut o = std::io::BufWriter::new(std::fs::File::create(out).expect("create out"));
    std::panic::set_hook(Box::new(|_| {}));
    for line in f.lines() {
        let line = line.unwrap();
        if line.trim().is_empty() {
            continue;
        }
        let sc: Scenario = serde_json::from_str(&line).expect("scenario");
        let r = run_scenario(&sc);
        let hung = r["hung"].as_u64().unwrap_or(0) > 0;
        serde_json::to_writer(&mut o, &r).unwrap();
        o.write_all(b"\n").unwrap();
        if hung {
            // the stuck threads are leaked (possibly spinning): later scenarios would not run under fair conditions
            break;
        }
    }
    o.flush().unwrap();
}
