//! Table-driven graph models and the driver that runs the real checkers on them and records
//! what they did (visitor log, counts, discoveries). No verdicts are computed here: the records
//! are judged by TLC against specs/CheckerObs.tla.

use serde::{Deserialize, Serialize};
use serde_json::{json, Value};
use stateright::*;
use std::collections::{BTreeSet, HashMap};
use std::io::{BufRead, Write};
use std::panic::{catch_unwind, AssertUnwindSafe};
use std::sync::atomic::{AtomicU64, Ordering};
use std::sync::{Arc, Mutex};
use std::time::{Duration, Instant};

#[derive(Clone, Debug, Deserialize, Serialize)]
pub struct PropSpec {
    pub kind: String,
    pub name: String,
    #[serde(default)]
    pub sat: Vec<u32>,
    /// "list" (default: `sat`), "all", "none", "mod" (s % m == r) -- formulas for the big graphs
    #[serde(default)]
    pub mode: String,
    #[serde(default)]
    pub m: u32,
    #[serde(default)]
    pub r: u32,
}

#[derive(Clone, Debug, Deserialize, Serialize)]
pub struct Graph {
    pub id: String,
    /// "table" (explicit succ lists) or an arithmetic family name.
    #[serde(default)]
    pub family: String,
    pub n: u32,
    pub init: Vec<u32>,
    #[serde(default)]
    pub succ: Vec<Vec<u32>>,
    #[serde(default)]
    pub inb: Vec<bool>,
    pub props: Vec<PropSpec>,
    /// parameters of arithmetic families
    #[serde(default)]
    pub params: Vec<i64>,
    /// node whose evaluation panics (0 = none) -- used for the "panic in model code" stop reason
    #[serde(default)]
    pub poison: u32,
    /// symmetric process-vector family: representative = sort digits (only for family "vec")
    #[serde(default)]
    pub rep: Vec<u32>,
    /// formula graphs: states with s % m == r are outside the boundary ([m, r]); empty = everything inside
    #[serde(default)]
    pub inb_mod: Vec<u32>,
    /// every evaluation of the first property takes this many microseconds (checks that are still running when asked)
    #[serde(default)]
    pub slow_us: u64,
}

#[derive(Clone)]
pub struct TableModel {
    pub g: Arc<Graph>,
    names: Vec<&'static str>,
    /// number of evaluations of the first property's condition (= number of evaluated states while it has no discovery)
    pub evals: Arc<AtomicU64>,
    /// family "ladder": how often the join of each level has been computed (rendezvous of the two rails)
    arrivals: Arc<Vec<AtomicU64>>,
    /// set when the poisoned node is evaluated (just before the panic); evaluations begun afterwards are counted
    poisoned: Arc<std::sync::atomic::AtomicBool>,
    pub after_poison: Arc<AtomicU64>,
}

fn leak(s: &str) -> &'static str {
    // names are drawn from a tiny pool; leaking is bounded by interning
    static POOL: Mutex<Vec<&'static str>> = Mutex::new(Vec::new());
    let mut p = POOL.lock().unwrap();
    if let Some(x) = p.iter().find(|x| **x == s) {
        return x;
    }
    let l: &'static str = Box::leak(s.to_string().into_boxed_str());
    p.push(l);
    l
}

impl TableModel {
    pub fn new(g: Graph) -> Self {
        let names = g.props.iter().map(|p| leak(&p.name)).collect();
        let levels = if g.family == "ladder" { g.params[0] as usize } else { 0 };
        TableModel {
            g: Arc::new(g),
            names,
            evals: Arc::new(AtomicU64::new(0)),
            arrivals: Arc::new((0..levels).map(|_| AtomicU64::new(0)).collect()),
            poisoned: Arc::new(std::sync::atomic::AtomicBool::new(false)),
            after_poison: Arc::new(AtomicU64::new(0)),
        }
    }
    fn sat(&self, i: usize, s: u32) -> bool {
        if self.g.poison != 0 && s == self.g.poison {
            self.poisoned.store(true, Ordering::SeqCst);
            panic!("poisoned node evaluated");
        }
        if i == 0 {
            self.evals.fetch_add(1, Ordering::SeqCst);
            if self.g.slow_us > 0 {
                std::thread::sleep(Duration::from_micros(self.g.slow_us));
            }
            if self.g.poison != 0 && self.poisoned.load(Ordering::SeqCst) {
                self.after_poison.fetch_add(1, Ordering::SeqCst);
                if self.g.family == "twochains" {
                    // evaluations after the panic are slow, so that "how many more" does not depend on how long the
                    // panicking worker takes to unwind
                    std::thread::sleep(Duration::from_micros(500));
                }
            }
        }
        let p = &self.g.props[i];
        match p.mode.as_str() {
            "" | "list" => p.sat.contains(&s),
            "all" => true,
            "none" => false,
            "mod" => s % p.m == p.r,
            m => panic!("prop mode {m}"),
        }
    }
    pub fn succs(&self, s: u32) -> Vec<u32> {
        let g = &self.g;
        match g.family.as_str() {
            "" | "table" => g.succ[(s - 1) as usize].clone(),
            // i -> (a*i+b) mod n + 1 , i -> i+c
            "affine" => {
                let (a, b, c) = (g.params[0], g.params[1], g.params[2]);
                let n = g.n as i64;
                let i = (s - 1) as i64;
                vec![((a * i + b).rem_euclid(n) + 1) as u32, ((i + c).rem_euclid(n) + 1) as u32]
            }
            // w x h grid, right and down
            "grid" => {
                let w = g.params[0];
                let h = g.params[1];
                let i = (s - 1) as i64;
                let (x, y) = (i % w, i / w);
                let mut v = vec![];
                v.push(if x + 1 < w { (y * w + x + 1 + 1) as u32 } else { 0 });
                v.push(if y + 1 < h { ((y + 1) * w + x + 1) as u32 } else { 0 });
                v
            }
            // w x h grid plus f out-of-boundary successors (node n) per state
            "fringed" => {
                if s == g.n {
                    return vec![];
                }
                let (w, h, f) = (g.params[0], g.params[1], g.params[2]);
                let i = (s - 1) as i64;
                let (x, y) = (i % w, i / w);
                let mut v = vec![];
                v.push(if x + 1 < w { (y * w + x + 1 + 1) as u32 } else { 0 });
                v.push(if y + 1 < h { ((y + 1) * w + x + 1) as u32 } else { 0 });
                for _ in 0..f {
                    v.push(g.n);
                }
                v
            }
            // two disjoint chains: odd nodes and even nodes
            "twochains" => vec![if s + 2 <= g.n { s + 2 } else { 0 }],
            // binary tree (heap numbering) with n nodes
            "tree" => {
                let n = g.n as i64;
                let i = s as i64;
                let mut v = vec![];
                for c in [2 * i, 2 * i + 1] {
                    v.push(if c <= n { c as u32 } else { 0 });
                }
                v
            }
            // long chain 1..k then bush: node k has n-k children, each terminal
            "chainbush" => {
                let k = g.params[0] as u32;
                if s < k {
                    vec![s + 1]
                } else if s == k {
                    ((k + 1)..=g.n).collect()
                } else {
                    vec![]
                }
            }
            // effectively unbounded counter tree: s -> 2s, 2s+1 (wrapping far away)
            "unbounded" => {
                let i = s as u64;
                vec![
                    ((2 * i) % 4_000_000_007u64) as u32 + 1,
                    ((2 * i + 1) % 4_000_000_007u64) as u32 + 1,
                ]
            }
            // two rails of `levels` states whose rungs meet in shared join states (every join has two parents)
            "ladder" => {
                let l = g.params[0] as u32;
                if s <= 2 * l {
                    let (side, lvl) = ((s - 1) / l, (s - 1) % l);
                    vec![if lvl + 1 < l { side * l + lvl + 2 } else { 0 }, 2 * l + lvl + 1]
                } else {
                    vec![]
                }
            }
            // effectively unbounded chain: exactly one successor per state
            "unbounded_chain" => vec![(s % 4_000_000_000u32) + 1],
            f => panic!("unknown family {f}"),
        }
    }
    pub fn inb(&self, s: u32) -> bool {
        let g = &self.g;
        if g.family == "fringed" {
            return s < g.n;
        }
        if g.inb.is_empty() {
            if g.inb_mod.len() == 2 {
                s % g.inb_mod[0] != g.inb_mod[1]
            } else {
                true
            }
        } else {
            g.inb[(s - 1) as usize]
        }
    }
}

macro_rules! conds {
    ($($n:ident $i:expr),*) => {
        $(fn $n(m: &TableModel, s: &u32) -> bool { m.sat($i, *s) })*
        const CONDS: &[fn(&TableModel, &u32) -> bool] = &[$($n),*];
    };
}
conds!(c0 0, c1 1, c2 2, c3 3, c4 4, c5 5, c6 6, c7 7);

impl Model for TableModel {
    type State = u32;
    type Action = u16;
    fn init_states(&self) -> Vec<u32> {
        self.g.init.clone()
    }
    fn actions(&self, s: &u32, actions: &mut Vec<u16>) {
        let k = self.succs(*s).len();
        for i in 1..=k {
            actions.push(i as u16);
        }
    }
    fn next_state(&self, s: &u32, a: u16) -> Option<u32> {
        let t = self.succs(*s)[(a - 1) as usize];
        if self.g.family == "ladder" && a == 2 && !self.arrivals.is_empty() {
            // the first of the two computations of a join waits briefly for the second one, so that two workers
            // walking the two rails stay side by side (timing only; widens the window of insert-if-absent races)
            let lvl = ((*s - 1) % self.g.params[0] as u32) as usize;
            if self.arrivals[lvl].fetch_add(1, Ordering::SeqCst) == 0 {
                let t0 = Instant::now();
                while self.arrivals[lvl].load(Ordering::SeqCst) < 2 && t0.elapsed() < Duration::from_micros(200) {
                    std::hint::spin_loop();
                }
            }
        }
        if t == 0 {
            None
        } else {
            Some(t)
        }
    }
    fn within_boundary(&self, s: &u32) -> bool {
        self.inb(*s)
    }
    fn properties(&self) -> Vec<Property<Self>> {
        self.g
            .props
            .iter()
            .enumerate()
            .map(|(i, p)| {
                let name = self.names[i];
                match p.kind.as_str() {
                    "always" => Property::always(name, CONDS[i]),
                    "sometimes" => Property::sometimes(name, CONDS[i]),
                    "eventually" => Property::eventually(name, CONDS[i]),
                    k => panic!("kind {k}"),
                }
            })
            .collect()
    }
}

// symmetry_fn takes a plain fn pointer, and checker threads are fresh threads, so the table
// cannot live in a thread-local; use a process-wide slot guarded by a mutex instead. Runs that use
// symmetry are executed one at a time.
static REP_GLOBAL: Mutex<Vec<u32>> = Mutex::new(Vec::new());
fn global_rep(s: &u32) -> u32 {
    let r = REP_GLOBAL.lock().unwrap();
    if r.is_empty() {
        *s
    } else {
        r[(*s - 1) as usize]
    }
}

#[derive(Clone, Debug, Deserialize, Serialize)]
pub struct Finish {
    pub variant: String,
    #[serde(default)]
    pub names: Vec<String>,
}

#[derive(Clone, Debug, Deserialize, Serialize)]
pub struct Cfg {
    pub strategy: String,
    pub threads: usize,
    #[serde(default)]
    pub symmetry: bool,
    pub finish: Finish,
    #[serde(default)]
    pub target_states: usize,
    #[serde(default)]
    pub target_depth: usize,
    #[serde(default)]
    pub timeout_ms: u64,
    #[serde(default)]
    pub seed: u64,
    #[serde(default)]
    pub perturb: u64,
    /// on-demand only: nodes to request (check_fingerprint) before run_to_completion;
    #[serde(default)]
    pub requests: Vec<u32>,
    /// do not record full visit paths (big graphs): only node, parent, depth
    #[serde(default)]
    pub light: bool,
    /// watchdog in ms (0 = default)
    #[serde(default)]
    pub watchdog_ms: u64,
    /// use the logging chooser instead of UniformChooser
    #[serde(default)]
    pub log_chooser: bool,
    /// capture the job-market event log of this run (requires --par 1)
    #[serde(default)]
    pub market_log: bool,
    /// run without a visitor (huge / unbounded state spaces)
    #[serde(default)]
    pub no_visitor: bool,
    /// simulation only: run a second time with the same seed and record its chooser log too
    #[serde(default)]
    pub replay_check: bool,
    /// the run is expected to be ended by its timeout (echoed for the judge)
    #[serde(default)]
    pub expect_timeout: bool,
    /// after the run: also take Checker::report (WriteReporter) and discovery_classification
    #[serde(default)]
    pub report: bool,
    /// wait for the run with Checker::join_and_report instead of joining the handles
    #[serde(default)]
    pub join_and_report: bool,
    /// bfs/dfs: call assert_properties shortly after spawning, while the check may still be running
    #[serde(default)]
    pub early_assert: bool,
    /// also feed the crate's own PathRecorder and StateRecorder visitors (what they recorded goes into the run record)
    #[serde(default)]
    pub recorders: bool,
}

pub fn finish_of(f: &Finish) -> HasDiscoveries {
    let set: BTreeSet<&'static str> = f.names.iter().map(|n| leak(n)).collect();
    match f.variant.as_str() {
        "All" => HasDiscoveries::All,
        "Any" => HasDiscoveries::Any,
        "AnyFailures" => HasDiscoveries::AnyFailures,
        "AllFailures" => HasDiscoveries::AllFailures,
        "AllOf" => HasDiscoveries::AllOf(set),
        "AnyOf" => HasDiscoveries::AnyOf(set),
        v => panic!("finish variant {v}"),
    }
}

/// The harness's log visitor followed by the crate's own two recorder visitors (fed with the same path).
struct WithRecorders {
    log: LogVisitor,
    paths: stateright::PathRecorder<TableModel>,
    states: stateright::StateRecorder<TableModel>,
}
impl CheckerVisitor<TableModel> for WithRecorders {
    fn visit(&self, m: &TableModel, path: Path<u32, u16>) {
        self.paths.visit(m, path.clone());
        self.states.visit(m, path.clone());
        self.log.visit(m, path);
    }
}

#[derive(Clone)]
struct LogVisitor {
    log: Arc<Mutex<Vec<Value>>>,
    light: bool,
}
impl CheckerVisitor<TableModel> for LogVisitor {
    fn visit(&self, _m: &TableModel, path: Path<u32, u16>) {
        let th = std::thread::current()
            .name()
            .unwrap_or("")
            .trim_start_matches("checker-")
            .parse::<i64>()
            .unwrap_or(-1);
        let v = path.into_vec();
        let node = v.last().unwrap().0;
        let rec = if self.light {
            let parent = if v.len() >= 2 { v[v.len() - 2].0 } else { 0 };
            json!({"node": node, "parent": parent, "depth": v.len(), "thread": th})
        } else {
            let states: Vec<u32> = v.iter().map(|(s, _)| *s).collect();
            let acts: Vec<u16> = v.iter().filter_map(|(_, a)| *a).collect();
            json!({"node": node, "path": states, "acts": acts, "thread": th})
        };
        // the mutex gives the total order of the log; per-thread order is program order
        self.log.lock().unwrap().push(rec);
    }
}

/// A chooser that draws like UniformChooser but logs every decision.
#[derive(Clone)]
pub struct LogChooser {
    pub log: Arc<Mutex<Vec<Value>>>,
}
pub struct LogChooserState {
    rng: rand::rngs::StdRng,
    seed: u64,
}
impl Chooser<TableModel> for LogChooser {
    type State = LogChooserState;
    fn new_state(&self, seed: u64) -> Self::State {
        use rand::SeedableRng;
        LogChooserState {
            rng: rand::rngs::StdRng::seed_from_u64(seed),
            seed,
        }
    }
    fn choose_initial_state(&self, st: &mut Self::State, inits: &[u32]) -> usize {
        use rand::Rng;
        let i = st.rng.gen_range(0..inits.len());
        let th = std::thread::current().name().unwrap_or("").to_string();
        self.log.lock().unwrap().push(
            json!({"k":"init","seed_lo": (st.seed & 0xffff_ffff) as u32, "thread": th, "n": inits.len(), "picked": i+1, "state": inits[i]}),
        );
        i
    }
    fn choose_action(&self, st: &mut Self::State, cur: &u32, actions: &[u16]) -> usize {
        use rand::Rng;
        let i = st.rng.gen_range(0..actions.len());
        let th = std::thread::current().name().unwrap_or("").to_string();
        self.log.lock().unwrap().push(
            json!({"k":"act","seed_lo": (st.seed & 0xffff_ffff) as u32, "thread": th, "state": *cur, "n": actions.len(), "picked": i+1, "action": actions[i]}),
        );
        i
    }
}

fn fp_of_node(m: &TableModel, node: u32) -> Option<std::num::NonZeroU64> {
    // fingerprints are private; Path::encode exposes them. A single-state path needs node to be
    // an init state, so build a tiny wrapper model where `node` is an init state.
    #[derive(Clone)]
    struct One(u32);
    impl Model for One {
        type State = u32;
        type Action = u16;
        fn init_states(&self) -> Vec<u32> {
            vec![self.0]
        }
        fn actions(&self, _: &u32, _: &mut Vec<u16>) {}
        fn next_state(&self, _: &u32, _: u16) -> Option<u32> {
            None
        }
    }
    let _ = m;
    let p = Path::from_actions(&One(node), node, Vec::<&u16>::new())?;
    p.encode().parse::<u64>().ok().and_then(std::num::NonZeroU64::new)
}

struct Obs {
    joined: bool,
    join_panicked: bool,
    is_done: bool,
    unique: usize,
    total: usize,
    max_depth: usize,
    discoveries: Vec<Value>,
    disc_panicked: bool,
    assert_panicked: bool,
    report: Value,
    handles_left: usize,
    wall_ms: u128,
}

fn observe<C>(mut c: C, cfg: &Cfg, model: &TableModel) -> Obs
where
    C: Checker<TableModel> + Send + Sync + 'static,
{
    let t0 = Instant::now();
    let watchdog = Duration::from_millis(if cfg.watchdog_ms > 0 { cfg.watchdog_ms } else { 20_000 });
    if cfg.join_and_report && cfg.strategy != "ondemand" {
        // the other way of waiting for a check: join_and_report on a thread of its own, under the watchdog
        let t = std::thread::spawn(move || {
            catch_unwind(AssertUnwindSafe(move || {
                let mut buf: Vec<u8> = Vec::new();
                c.join_and_report(&mut stateright::report::WriteReporter::new(&mut buf))
            }))
        });
        while !t.is_finished() && t0.elapsed() <= watchdog {
            std::thread::sleep(Duration::from_micros(200));
        }
        let blank = |joined: bool, join_panicked: bool, wall_ms: u128| Obs {
            joined, join_panicked, is_done: false, unique: 0, total: 0, max_depth: 0, discoveries: vec![], disc_panicked: false,
            assert_panicked: false, report: json!({"present": false}), handles_left: if joined { 0 } else { 1 }, wall_ms,
        };
        if !t.is_finished() {
            return blank(false, false, t0.elapsed().as_millis()); // the waiting thread is leaked
        }
        let wall_ms = t0.elapsed().as_millis();
        return match t.join() {
            Ok(Ok(c2)) => {
                let mut o = observe_finished(c2, cfg, model, true, false, 0, wall_ms);
                o.wall_ms = wall_ms;
                o
            }
            // the panic of a checker thread re-raised by join_and_report
            _ => blank(true, true, wall_ms),
        };
    }
    let handles = c.handles();
    if cfg.early_assert && cfg.strategy != "ondemand" {
        std::thread::sleep(Duration::from_millis(3));
        let done_before = c.is_done();
        let panicked = catch_unwind(AssertUnwindSafe(|| c.assert_properties())).is_err();
        let done_after = c.is_done();
        EARLY.with(|e| e.set(Some((done_before, panicked, done_after))));
    }
    let mut requests_stuck = false;
    if cfg.strategy == "ondemand" {
        // the requests are made on a thread of their own: check_fingerprint / run_to_completion are calls into the code
        // under test and must not be able to block the harness
        let shared = Arc::new(c);
        let c2 = Arc::clone(&shared);
        let fps: Vec<_> = cfg.requests.iter().filter_map(|r| fp_of_node(model, *r)).collect();
        let t = std::thread::spawn(move || {
            for fp in fps {
                c2.check_fingerprint(fp);
                std::thread::sleep(Duration::from_millis(2));
            }
            c2.run_to_completion();
        });
        while !t.is_finished() && t0.elapsed() <= watchdog {
            std::thread::sleep(Duration::from_micros(200));
        }
        if !t.is_finished() {
            requests_stuck = true;
        }
        let _ = if requests_stuck { None } else { t.join().ok() };
        c = match Arc::try_unwrap(shared) {
            Ok(x) => x,
            Err(_still_shared) => {
                // the requesting thread is stuck inside the checker: nothing more can be observed
                return Obs {
                    joined: false, join_panicked: false, is_done: false, unique: 0, total: 0, max_depth: 0, discoveries: vec![],
                    disc_panicked: false, assert_panicked: false, report: json!({"present": false}), handles_left: handles.len(),
                    wall_ms: t0.elapsed().as_millis(),
                };
            }
        };
    }
    let _ = requests_stuck;
    // join all handles under a watchdog; a handle that never finishes is data, not a hang
    let mut joined = true;
    let mut join_panicked = false;
    let mut left = 0;
    // on-demand only: once the checker says it is done, the remaining handles get a grace period
    // instead of the full watchdog (join() of an on-demand checker is known to be able to hang)
    let grace = Duration::from_millis(if cfg.watchdog_ms > 0 { cfg.watchdog_ms } else { 3_000 });
    let mut done_since: Option<Instant> = None;
    for h in handles {
        loop {
            if h.is_finished() {
                if h.join().is_err() {
                    join_panicked = true;
                }
                break;
            }
            if cfg.strategy == "ondemand" {
                if done_since.is_none() && c.is_done() {
                    done_since = Some(Instant::now());
                }
                if let Some(t) = done_since {
                    if t.elapsed() > grace {
                        joined = false;
                        left += 1;
                        break;
                    }
                }
            }
            if t0.elapsed() > watchdog {
                joined = false;
                left += 1;
                break; // leak the handle
            }
            std::thread::sleep(Duration::from_micros(200));
        }
    }
    let wall_ms = t0.elapsed().as_millis();
    observe_finished(c, cfg, model, joined, join_panicked, left, wall_ms)
}

fn observe_finished<C>(c: C, cfg: &Cfg, model: &TableModel, joined: bool, join_panicked: bool, left: usize, wall_ms: u128) -> Obs
where
    C: Checker<TableModel> + Send + Sync + 'static,
{
    let is_done = c.is_done();
    let unique = c.unique_state_count();
    let total = c.state_count();
    let max_depth = c.max_depth();
    let mut disc_panicked = false;
    let discoveries = match catch_unwind(AssertUnwindSafe(|| c.discoveries())) {
        Ok(d) => {
            let mut v: Vec<Value> = d
                .into_iter()
                .map(|(name, p)| {
                    let pv = p.into_vec();
                    let states: Vec<u32> = pv.iter().map(|(s, _)| *s).collect();
                    let acts: Vec<u16> = pv.iter().filter_map(|(_, a)| *a).collect();
                    json!({"name": name, "states": states, "acts": acts})
                })
                .collect();
            v.sort_by_key(|x| x["name"].as_str().unwrap().to_string());
            v
        }
        Err(_) => {
            disc_panicked = true;
            vec![]
        }
    };
    let assert_panicked = catch_unwind(AssertUnwindSafe(|| c.assert_properties())).is_err();
    // what Checker::report writes once the check is done (the textual report users read), projected: the "Done." line,
    // and per discovery its name, classification and the nodes denoted by its fingerprint path
    let mut report = json!({"present": false});
    if cfg.report && joined && is_done && !disc_panicked {
        let class_of: Vec<Value> = model
            .g
            .props
            .iter()
            .map(|p| {
                let cl = catch_unwind(AssertUnwindSafe(|| format!("{}", c.discovery_classification(&p.name)))).unwrap_or_else(|_| "panic".into());
                json!({"name": p.name, "classification": cl})
            })
            .collect();
        let mut buf: Vec<u8> = vec![];
        let r = catch_unwind(AssertUnwindSafe(|| c.report(&mut stateright::report::WriteReporter::new(&mut buf))));
        let text = String::from_utf8_lossy(&buf).to_string();
        let mut rev: HashMap<String, u32> = HashMap::new();
        for n in 1..=model.g.n {
            if let Some(fp) = fp_of_node(model, n) {
                rev.insert(fp.to_string(), n);
            }
        }
        let num = |line: &str, key: &str| -> i64 {
            line.split(key).nth(1).map(|t| t.chars().take_while(|c| c.is_ascii_digit()).collect::<String>()).and_then(|t| t.parse().ok()).unwrap_or(-1)
        };
        let mut done_lines = vec![];
        let mut items = vec![];
        let mut cur: Option<(String, String)> = None;
        for line in text.lines() {
            if line.starts_with("Done. ") {
                done_lines.push(json!({"states": num(line, "states="), "unique": num(line, "unique="), "depth": num(line, "depth=")}));
            } else if let Some(rest) = line.strip_prefix("Discovered \"") {
                let name = rest.split('"').next().unwrap_or("").to_string();
                let class = rest.split('"').nth(1).unwrap_or("").split_whitespace().next().unwrap_or("").to_string();
                cur = Some((name, class));
            } else if let Some(rest) = line.strip_prefix("Fingerprint path: ") {
                let nodes: Vec<i64> = rest.trim().split('/').map(|f| rev.get(f).map(|n| *n as i64).unwrap_or(0)).collect();
                let (name, class) = cur.take().unwrap_or_default();
                items.push(json!({"name": name, "classification": class, "nodes": nodes}));
            }
        }
        report = json!({"present": true, "panicked": r.is_err(), "done_lines": done_lines, "items": items, "class_of": class_of});
        match r {
            Ok(c2) => drop(c2),
            Err(_) => {}
        }
        return Obs { joined, join_panicked, is_done, unique, total, max_depth, discoveries, disc_panicked, assert_panicked, report, handles_left: left, wall_ms };
    }
    if !joined {
        // leak the checker too: dropping it could block or hide the hang
        std::mem::forget(c);
    }
    Obs {
        joined,
        join_panicked,
        is_done,
        unique,
        total,
        max_depth,
        discoveries,
        disc_panicked,
        assert_panicked,
        report,
        handles_left: left,
        wall_ms,
    }
}

static SYM_LOCK: Mutex<()> = Mutex::new(());
thread_local! {
    /// (is_done before, assert_properties panicked, is_done after) of the early call, if one was made
    static EARLY: std::cell::Cell<Option<(bool, bool, bool)>> = std::cell::Cell::new(None);
}

pub fn run_one(g: &Graph, cfg: &Cfg) -> Value {
    EARLY.with(|e| e.set(None));
    let model = TableModel::new(g.clone());
    let vlog = Arc::new(Mutex::new(Vec::new()));
    let clog = Arc::new(Mutex::new(Vec::new()));
    let vis = LogVisitor {
        log: Arc::clone(&vlog),
        light: cfg.light,
    };
    let _guard = if cfg.symmetry {
        let gd = SYM_LOCK.lock().unwrap_or_else(|e| e.into_inner());
        *REP_GLOBAL.lock().unwrap() = g.rep.clone();
        Some(gd)
    } else {
        None
    };
    let mut b = model
        .clone()
        .checker()
        .threads(cfg.threads)
        .finish_when(finish_of(&cfg.finish));
    let mut rec_access: Option<(Box<dyn Fn() -> std::collections::HashSet<Path<u32, u16>>>, Box<dyn Fn() -> Vec<u32>>)> = None;
    if !cfg.no_visitor {
        if cfg.recorders {
            let (pr, pa) = stateright::PathRecorder::<TableModel>::new_with_accessor();
            let (sr, sa) = stateright::StateRecorder::<TableModel>::new_with_accessor();
            rec_access = Some((Box::new(pa), Box::new(sa)));
            b = b.visitor(WithRecorders { log: vis, paths: pr, states: sr });
        } else {
            b = b.visitor(vis);
        }
    }
    if cfg.target_states > 0 {
        b = b.target_state_count(cfg.target_states);
    }
    if cfg.target_depth > 0 {
        b = b.target_max_depth(cfg.target_depth);
    }
    if cfg.timeout_ms > 0 {
        b = b.timeout(Duration::from_millis(cfg.timeout_ms));
    }
    if cfg.symmetry {
        b = b.symmetry_fn(global_rep);
    }
    crate::hooks::set_perturb(cfg.perturb);
    if cfg.market_log {
        crate::hooks::start_capture();
    }
    let spawn_panicked;
    let obs = {
        let r = catch_unwind(AssertUnwindSafe(|| match cfg.strategy.as_str() {
            "bfs" => observe(b.spawn_bfs(), cfg, &model),
            "dfs" => observe(b.spawn_dfs(), cfg, &model),
            "ondemand" => observe(b.spawn_on_demand(), cfg, &model),
            "sim" => {
                if cfg.log_chooser {
                    observe(
                        b.spawn_simulation(cfg.seed, LogChooser { log: Arc::clone(&clog) }),
                        cfg,
                        &model,
                    )
                } else {
                    observe(b.spawn_simulation(cfg.seed, UniformChooser), cfg, &model)
                }
            }
            s => panic!("strategy {s}"),
        }));
        match r {
            Ok(o) => {
                spawn_panicked = false;
                Some(o)
            }
            Err(_) => {
                spawn_panicked = true;
                None
            }
        }
    };
    crate::hooks::set_perturb(0);
    let market: Vec<Value> = if cfg.market_log { crate::hooks::stop_capture() } else { vec![] };
    let visits = std::mem::take(&mut *vlog.lock().unwrap());
    let chooser = std::mem::take(&mut *clog.lock().unwrap());
    // seed replay: the same configuration once more, chooser log only
    let mut chooser2: Vec<Value> = vec![];
    if cfg.replay_check && cfg.strategy == "sim" {
        let clog2 = Arc::new(Mutex::new(Vec::new()));
        let mut b2 = model.clone().checker().threads(cfg.threads).finish_when(finish_of(&cfg.finish));
        if cfg.target_states > 0 {
            b2 = b2.target_state_count(cfg.target_states);
        }
        if cfg.target_depth > 0 {
            b2 = b2.target_max_depth(cfg.target_depth);
        }
        let _ = catch_unwind(AssertUnwindSafe(|| {
            observe(b2.spawn_simulation(cfg.seed, LogChooser { log: Arc::clone(&clog2) }), cfg, &model)
        }));
        chooser2 = std::mem::take(&mut *clog2.lock().unwrap());
    }
    let done = match obs {
        Some(o) => json!({
            "joined": o.joined, "join_panicked": o.join_panicked, "is_done": o.is_done,
            "unique": o.unique, "total": o.total, "max_depth": o.max_depth,
            "discoveries": o.discoveries, "disc_panicked": o.disc_panicked,
            "assert_panicked": o.assert_panicked, "handles_left": o.handles_left,
            "wall_ms": o.wall_ms as u64, "spawn_panicked": false, "evals": model.evals.load(Ordering::SeqCst),
            "evals_after_poison": model.after_poison.load(Ordering::SeqCst), "report": o.report}),
        None => json!({
            "joined": false, "join_panicked": false, "is_done": false, "unique": 0, "total": 0,
            "max_depth": 0, "discoveries": [], "disc_panicked": false, "assert_panicked": false,
            "handles_left": 0, "wall_ms": 0, "spawn_panicked": spawn_panicked, "evals": 0}),
    };
    let early = EARLY.with(|e| e.take());
    let mut out = json!({"cfg": cfg, "visits": visits, "chooser": chooser, "chooser2": chooser2, "done": done, "market": market});
    if let Some((b, p, a)) = early {
        out["early"] = json!({"done_before": b, "panicked": p, "done_after": a});
    }
    if let Some((pa, sa)) = rec_access {
        let mut paths: Vec<Value> = pa()
            .into_iter()
            .map(|p| {
                let v = p.into_vec();
                let states: Vec<u32> = v.iter().map(|(s, _)| *s).collect();
                let acts: Vec<u16> = v.iter().filter_map(|(_, a)| *a).collect();
                json!({"path": states, "acts": acts})
            })
            .collect();
        paths.sort_by_key(|p| p.to_string());
        out["recorded"] = json!({"states": sa(), "paths": paths});
    }
    out
}

static RID: AtomicU64 = AtomicU64::new(0);

/// input: ndjson lines {"g": Graph, "gi": int, "cfgs": [Cfg]}; output: ndjson run records
pub fn main_graphs(inp: &str, out: &str, par: usize) {
    let f = std::io::BufReader::new(std::fs::File::open(inp).expect("open input"));
    let mut items: Vec<(u64, Graph, Vec<Cfg>)> = Vec::new();
    for line in f.lines() {
        let line = line.unwrap();
        if line.trim().is_empty() {
            continue;
        }
        let v: Value = serde_json::from_str(&line).expect("json");
        let g: Graph = serde_json::from_value(v["g"].clone()).expect("graph");
        let gi = v["gi"].as_u64().unwrap();
        let cfgs: Vec<Cfg> = serde_json::from_value(v["cfgs"].clone()).expect("cfgs");
        items.push((gi, g, cfgs));
    }
    // silence panic messages from model code / assert_properties: they are data
    std::panic::set_hook(Box::new(|_| {}));
    let items = Arc::new(items);
    let next = Arc::new(AtomicU64::new(0));
    let outf = Arc::new(Mutex::new(std::io::BufWriter::new(
        std::fs::File::create(out).expect("create out"),
    )));
    let mut hs = vec![];
    for _ in 0..par.max(1) {
        let items = Arc::clone(&items);
        let next = Arc::clone(&next);
        let outf = Arc::clone(&outf);
        hs.push(std::thread::spawn(move || loop {
            let i = next.fetch_add(1, Ordering::SeqCst) as usize;
            if i >= items.len() {
                break;
            }
            let (gi, g, cfgs) = &items[i];
            for cfg in cfgs {
                let mut r = run_one(g, cfg);
                r["gi"] = json!(gi);
                r["rid"] = json!(RID.fetch_add(1, Ordering::SeqCst) + 1);
                let mut o = outf.lock().unwrap();
                serde_json::to_writer(&mut *o, &r).unwrap();
                o.write_all(b"\n").unwrap();
            }
        }));
    }
    for h in hs {
        h.join().unwrap();
    }
    outf.lock().unwrap().flush().unwrap();
}

/// HasDiscoveries::matches on every (property list, discovery set, variant) within bounds (C12)
pub fn main_matches(out: &str) {
    let mut o = std::io::BufWriter::new(std::fs::File::create(out).expect("create out"));
    let kinds = ["always", "sometimes", "eventually"];
    let names = ["a", "b", "c"];
    for n in 0..=3usize {
        // all kind assignments
        let mut assigns: Vec<Vec<usize>> = vec![vec![]];
        for _ in 0..n {
            let mut nx = vec![];
            for a in &assigns {
                for k in 0..3 {
                    let mut b = a.clone();
                    b.push(k);
                    nx.push(b);
                }
            }
            assigns = nx;
        }
        for a in assigns {
            let props: Vec<PropSpec> = a
                .iter()
                .enumerate()
                .map(|(i, k)| PropSpec { kind: kinds[*k].to_string(), name: names[i].to_string(), sat: vec![], mode: "all".into(), m: 0, r: 0 })
                .collect();
            let g = Graph { id: "m".into(), family: "table".into(), n: 1, init: vec![1], succ: vec![vec![]], inb: vec![true],
                            props: props.clone(), params: vec![], poison: 0, rep: vec![], inb_mod: vec![], slow_us: 0 };
            let model = TableModel::new(g);
            let plist = model.properties();
            for dmask in 0..(1u32 << n) {
                let disc: BTreeSet<&'static str> = (0..n).filter(|i| dmask >> i & 1 == 1).map(|i| leak(names[i])).collect();
                let mut variants: Vec<Finish> = ["All", "Any", "AnyFailures", "AllFailures"]
                    .iter()
                    .map(|v| Finish { variant: v.to_string(), names: vec![] })
                    .collect();
                for smask in 0..(1u32 << n) {
                    let ns: Vec<String> = (0..n).filter(|i| smask >> i & 1 == 1).map(|i| names[i].to_string()).collect();
                    variants.push(Finish { variant: "AllOf".into(), names: ns.clone() });
                    variants.push(Finish { variant: "AnyOf".into(), names: ns });
                }
                for f in variants {
                    let m = finish_of(&f).matches(&disc, &plist);
                    let rec = json!({"props": props.iter().map(|p| json!({"kind": p.kind, "name": p.name})).collect::<Vec<_>>(),
                        "disc": disc.iter().collect::<Vec<_>>(), "finish": f, "matches": m});
                    serde_json::to_writer(&mut o, &rec).unwrap();
                    o.write_all(b"\n").unwrap();
                }
            }
        }
    }
    o.flush().unwrap();
}
