"""Graph-model corpus (DESIGN.md section 3): table models shared by TLC and the Rust harness."""
import itertools, random

KINDS = ["always", "sometimes", "eventually"]


def mkprops(rng, n, k, sentinel=True):
    props = []
    for i in range(k):
        kind = rng.choice(KINDS)
        r = rng.random()
        if r < 0.15:
            sat = []
        elif r < 0.3:
            sat = list(range(1, n + 1))
        else:
            sat = sorted(rng.sample(range(1, n + 1), rng.randint(1, max(1, n - 1))))
        props.append(dict(kind=kind, name="p%d" % (i + 1), sat=sat))
    if sentinel:
        # a property that never gets a discovery keeps the checker exploring to the end
        props.append(dict(kind="always", name="keep", sat=list(range(1, n + 1))))
    rng.shuffle(props)
    return props


def random_graph(rng, gid, nlo=3, nhi=8, nprops=None, sentinel=None):
    n = rng.randint(nlo, nhi)
    succ = []
    for s in range(1, n + 1):
        k = rng.choice([0, 1, 1, 2, 2, 3])
        row = []
        for _ in range(k):
            r = rng.random()
            if r < 0.12:
                row.append(0)               # ignored action
            elif r < 0.22:
                row.append(s)               # self-loop
            else:
                row.append(rng.randint(1, n))
        if rng.random() < 0.1 and row:
            row.append(row[0])              # parallel edge
        succ.append(row)
    ninit = rng.choice([1, 1, 2, 3])
    init = rng.sample(range(1, n + 1), min(ninit, n))
    inb = [rng.random() > 0.15 for _ in range(n)]
    if rng.random() < 0.5:
        inb = [True] * n
    if nprops is None:
        nprops = rng.randint(1, 4)
    if sentinel is None:
        sentinel = rng.random() < 0.7
    return dict(id=gid, family="table", n=n, init=init, succ=succ, inb=inb,
                props=mkprops(rng, n, nprops, sentinel), params=[], poison=0, rep=[])


def random_forest(rng, gid, nlo=3, nhi=9):
    n = rng.randint(nlo, nhi)
    roots = rng.randint(1, min(2, n))
    succ = [[] for _ in range(n)]
    order = list(range(1, n + 1))
    rng.shuffle(order)
    init = order[:roots]
    placed = list(init)
    for s in order[roots:]:
        par = rng.choice(placed)
        succ[par - 1].append(s)
        placed.append(s)
    for s in range(n):
        if rng.random() < 0.2:
            succ[s].insert(rng.randint(0, len(succ[s])), 0)   # ignored action
    inb = [True] * n
    if rng.random() < 0.4:
        for s in rng.sample(range(1, n + 1), rng.randint(1, 2)):
            if s not in init:
                inb[s - 1] = False
    k = rng.randint(1, 3)
    props = []
    for i in range(k):
        r = rng.random()
        if r < 0.2:
            sat = []
        else:
            sat = sorted(rng.sample(range(1, n + 1), rng.randint(1, max(1, n // 2))))
        props.append(dict(kind="eventually", name="e%d" % (i + 1), sat=sat))
    props += mkprops(rng, n, rng.randint(0, 2), sentinel=rng.random() < 0.8)
    rng.shuffle(props)
    return dict(id=gid, family="table", n=n, init=init, succ=succ, inb=inb, props=props, params=[], poison=0, rep=[])


def tiny_graphs():
    """F1: ALL graphs with <=2 nodes and <=2 actions per node x inits x boundaries; one property of each kind
    with every labelling is attached by the caller."""
    out = []
    for n in (1, 2):
        targets = list(range(0, n + 1))
        rows = [[]] + [[a] for a in targets] + [[a, b] for a in targets for b in targets]
        for succ in itertools.product(rows, repeat=n):
            for init in ([[1]] if n == 1 else [[1], [2], [1, 2], [2, 1]]):
                for inb in itertools.product([True, False], repeat=n):
                    out.append(dict(n=n, succ=[list(r) for r in succ], init=list(init), inb=list(inb)))
    return out


def f1_corpus(rng, count=None):
    base = tiny_graphs()
    gs = []
    i = 0
    for b in base:
        n = b["n"]
        subsets = [[s for s in range(1, n + 1) if (m >> (s - 1)) & 1] for m in range(1 << n)]
        # one property of each kind, every labelling: 3 props with independently chosen sat sets would be
        # |subsets|^3; take all labellings for one kind at a time plus a mixed one chosen by rng
        for kind in KINDS:
            for sat in subsets:
                i += 1
                props = [dict(kind=kind, name="p1", sat=sat),
                         dict(kind="always", name="keep", sat=list(range(1, n + 1)))]
                gs.append(dict(id="F1-%d" % i, family="table", props=props, params=[], poison=0, rep=[], **b))
        i += 1
        props = [dict(kind=k, name="p%d" % (j + 1), sat=rng.choice(subsets)) for j, k in enumerate(KINDS)]
        gs.append(dict(id="F1-%d" % i, family="table", props=props, params=[], poison=0, rep=[], **b))
    if count is not None and count < len(gs):
        gs = rng.sample(gs, count)
    return gs


def finish_menu(rng, g):
    names = [p["name"] for p in g["props"]]
    r = rng.random()
    if r < 0.4:
        return dict(variant="All", names=[])
    v = rng.choice(["Any", "AnyFailures", "AllFailures", "AllOf", "AnyOf"])
    ns = []
    if v in ("AllOf", "AnyOf"):
        ns = sorted(rng.sample(names, rng.randint(0, len(names))))
    return dict(variant=v, names=ns)


def base_cfg(strategy, threads=1, **kw):
    c = dict(strategy=strategy, threads=threads, symmetry=False, finish=dict(variant="All", names=[]),
             target_states=0, target_depth=0, timeout_ms=0, seed=0, perturb=0, requests=[], light=False,
             watchdog_ms=0, log_chooser=False)
    c.update(kw)
    return c


def symmetric_graph(rng, gid, eventually=False):
    """F5: k identical processes with m local states each; a state is the vector of local states; a step moves one
    process along the shared local transition table, optionally guarded by a predicate on the multiset of the others.
    Transitions, boundary and properties are invariant under permutations of the processes; rep = sorted vector."""
    k = rng.choice([2, 2, 3])
    m = rng.choice([2, 3]) if k == 3 else rng.choice([2, 3, 4])
    table = [[t for t in range(m) if rng.random() < 0.5 and t != l] for l in range(m)]
    for l in range(m - 1):
        if not table[l] and rng.random() < 0.8:
            table[l] = [l + 1]
    guard_state = rng.randrange(m)
    guard_on = rng.random() < 0.4         # a step into local state g needs nobody else to be in g (mutual exclusion style)
    n = m ** k

    def dec(s):
        v = []
        x = s - 1
        for _ in range(k):
            v.append(x % m)
            x //= m
        return v

    def enc(v):
        x = 0
        for i in reversed(range(k)):
            x = x * m + v[i]
        return x + 1
    succ, rep = [], []
    for s in range(1, n + 1):
        v = dec(s)
        row = []
        for i in range(k):
            for t in table[v[i]]:
                if guard_on and t == guard_state and any(v[j] == t for j in range(k) if j != i):
                    row.append(0)      # ignored action
                else:
                    w = list(v)
                    w[i] = t
                    row.append(enc(w))
        succ.append(row)
        rep.append(enc(sorted(v)))
    multisets = sorted(set(tuple(sorted(dec(s))) for s in range(1, n + 1)))

    def sym_set(p):
        chosen = set(ms for ms in multisets if rng.random() < p)
        return [s for s in range(1, n + 1) if tuple(sorted(dec(s))) in chosen]
    inb = [True] * n
    if rng.random() < 0.3:
        out = set(sym_set(0.15))
        inb = [s not in out for s in range(1, n + 1)]
    r0 = rng.random()
    if r0 < 0.4:
        init_v = [rng.randrange(m)] * k
    elif r0 < 0.6:
        init_v = sorted(rng.randrange(m) for _ in range(k))
    else:
        # an initial state that is NOT its own representative (e.g. [1, 0] with representative [0, 1])
        init_v = sorted((rng.randrange(m) for _ in range(k)), reverse=True)
    init = [enc(init_v)]
    inb[init[0] - 1] = True
    props = []
    for i in range(rng.randint(1, 3)):
        kind = rng.choice(["always", "sometimes"] + (["eventually", "eventually"] if eventually else []))
        props.append(dict(kind=kind, name="p%d" % (i + 1), sat=sym_set(rng.choice([0.1, 0.3, 0.6, 0.9]))))
    if rng.random() < 0.7:
        props.append(dict(kind="always", name="keep", sat=list(range(1, n + 1))))
    return dict(id=gid, family="table", n=n, init=init, succ=succ, inb=inb, props=props, params=[], poison=0, rep=rep)
