#!/usr/bin/env python3
"""Regenerates the table of seeded changes in DESIGN.md (section S.5) from seeded/*/meta.json."""
import json, os, re
root = "/verif/seeded"
rows = ["| change | what it is (first line of the author's note) | caught by | |", "|---|---|---|---|"]
def key(d):
    p, k = d.split("-")
    return (p, int(k))
for d in sorted(os.listdir(root), key=key):
    m = json.load(open(os.path.join(root, d, "meta.json")))
    first = m["what_it_needs_to_manifest"].strip().splitlines()[0][:150].replace("|", "/")
    rows.append("| %s%s | %s | %s | %s |" % (d, (" (round %d)" % m["round"]) if m.get("round") else "", first, "; ".join(m["detected_by"]).replace("|", "/"),
                                         "**missed at first**" if m["missed_before_strengthening"] else ""))
table = "\n".join(rows) + "\n"
p = "/verif/DESIGN.md"
s = open(p).read()
i = s.index("| change | what it is")
j = i
lines = s[i:].splitlines(keepends=True)
n = 0
for ln in lines:
    if not ln.startswith("|"):
        break
    n += len(ln)
s = s[:i] + table + s[i + n:]
open(p, "w").write(s)
print("rows", len(rows) - 2)
