"""./check selftest: the machinery checks itself (binding demonstrated, vacuity excluded).
 1. the as-found spec variants kept as mutants must FAIL with the expected invariant;
 2. recorded observations are corrupted in one field and the TLC judges / trace specs must reject them;
 3. every action/step of the trace specs is taken by the validated real traces (coverage lists in the evidence)."""
import json, os, random, copy
from vlib import *
import gen_graphs as gg, gen_actors as ga
import fam_graph, fam_actor, fam_market, fam_consistency


def expect(cond, what, fails):
    log(("ok   " if cond else "FAIL ") + what)
    if not cond:
        fails.append(what)


def main():
    build_harness()
    fails = []
    wd = workdir("selftest")
    rng = random.Random(7)
    # 1. kept spec mutants
    r = run_tlc("JobMarket.tla", "cfg/JobMarket_1w_timeout_asis.cfg", workers=4, timeout=600, name="st-jm")
    expect(r["violated"] == "BoundedDelay", "JobMarket as-found variant violates BoundedDelay", fails)
    s = fam_actor.orl_system("two_msgs", [[(1, 11), (1, 12)], []])
    sp = os.path.join(wd, "orl.ndjson")
    write_ndjson(sp, [s])
    r = run_tlc("MCOrl.tla", "cfg/MCOrl_asis.cfg", env=dict(SYSTEMS=sp), workers=4, timeout=600, name="st-orl")
    expect(r["violated"] == "Prefix", "ordered-reliable-link as-found variant violates Prefix", fails)
    # 2a. graph runs: corrupt a visit path / a count / a discovery
    graphs = [fam_graph.force_sentinel(gg.random_graph(rng, "S%d" % i, 4, 8)) for i in range(30)]
    items = [dict(g=g, gi=i + 1, cfgs=[gg.base_cfg("bfs", 1)]) for i, g in enumerate(graphs)]
    runs = fam_graph.execute(wd, items, par=4)
    good = fam_graph.judge(wd, graphs, runs)
    expect(all(not j["failed"] for j in good), "30 unmodified BFS runs are accepted by the judge", fails)
    bad = copy.deepcopy(runs)
    for r_ in bad:
        r_["done"]["unique"] += 1
    j = fam_graph.judge(wd, graphs, bad)
    expect(all("complete" in x["failed"] for x in j), "unique_state_count off by one is rejected (complete)", fails)
    bad = copy.deepcopy(runs)
    k = 0
    for r_ in bad:
        if len(r_["visits"]) >= 2:
            r_["visits"].pop()
            k += 1
    j = fam_graph.judge(wd, graphs, bad)
    expect(sum("complete" in x["failed"] for x in j) == k and k > 0, "a dropped visit is rejected (complete)", fails)
    bad = copy.deepcopy(runs)
    k = 0
    for r_ in bad:
        for v in r_["visits"]:
            if len(v["path"]) >= 2:
                v["path"][0] = v["path"][-1]
                k += 1
                break
    j = fam_graph.judge(wd, graphs, bad)
    expect(sum(("paths" in x["failed"]) for x in j) > 0, "a visit path that is not an execution is rejected (paths)", fails)
    # 2a'. the textual report: a flipped classification / a wrong count in the Done line must be rejected
    items = [dict(g=g, gi=i + 1, cfgs=[gg.base_cfg("dfs", 1, report=True)]) for i, g in enumerate(graphs)]
    runs_r = fam_graph.execute(wd, items, par=4)
    j = fam_graph.judge(wd, graphs, runs_r)
    with_disc = [i for i, r_ in enumerate(runs_r) if r_["done"]["report"].get("present") and r_["done"]["report"]["items"]]
    expect(all("report" not in x["failed"] for x in j) and len(with_disc) > 0, "unmodified reports are accepted (%d list discoveries)" % len(with_disc), fails)
    bad = copy.deepcopy(runs_r)
    for i in with_disc:
        it = bad[i]["done"]["report"]["items"][0]
        it["classification"] = "example" if it["classification"] == "counterexample" else "counterexample"
    j = fam_graph.judge(wd, graphs, bad)
    expect(all("report" in j[i]["failed"] for i in with_disc), "a flipped discovery classification in the report is rejected", fails)
    bad = copy.deepcopy(runs_r)
    for r_ in bad:
        if r_["done"]["report"].get("present"):
            r_["done"]["report"]["done_lines"][0]["unique"] += 1
    j = fam_graph.judge(wd, graphs, bad)
    expect(all("report" in x["failed"] for x, r_ in zip(j, bad) if r_["done"]["report"].get("present")), "a wrong count in the report's Done line is rejected", fails)
    # 2b. actor conformance: corrupt an envelope count / drop an edge
    systems = ga.variants("flows", ga.hand_written()[5][1], rng)[:6]
    sp2, recs = fam_actor.record(wd, systems, real_counts=False, tag="st")
    st, sy = fam_actor.judge(wd, systems, recs)
    expect(all(not x["failed"] for x in st), "unmodified actor graphs conform", fails)
    bad = copy.deepcopy(recs)
    k = 0
    for r_ in bad:
        if not r_.get("summary") and r_["edges"]:
            r_["edges"].pop()
            k += 1
    st, sy = fam_actor.judge(wd, systems, bad)
    expect(sum(1 for x in st if x["failed"]) >= k * 0.9, "a missing transition is rejected in (almost) every state", fails)
    bad = copy.deepcopy(recs)
    for r_ in bad:
        if not r_.get("summary"):
            r_["len"] += 1
    st, sy = fam_actor.judge(wd, systems, bad)
    expect(all("net_len" in x["failed"] for x in st), "a wrong Network::len is rejected", fails)
    # 2c. market trace: corrupt an open_count, remove an event
    scs = fam_market.gen_scenarios(rng, 40)
    p1, p2 = os.path.join(wd, "sc.ndjson"), os.path.join(wd, "sc-out.ndjson")
    write_ndjson(p1, scs)
    run_vh(["market", "--in", p1, "--out", p2])
    outs = read_ndjson(p2)
    res = Result("selftest", "quick")
    bad_, cov = fam_market.validate_events(res, wd, [(o["sid"], o["events"]) for o in outs], "st-ok")
    expect(bad_ == [], "40 unmodified market logs are accepted", fails)
    o2 = copy.deepcopy(outs)
    o2[0]["events"][1]["open_count"] += 1
    bad_, cov = fam_market.validate_events(res, wd, [(o["sid"], o["events"]) for o in o2], "st-b1")
    expect(any("post_open_count" in b["why"] for b in bad_), "a corrupted open_count is rejected", fails)
    o2 = copy.deepcopy(outs)
    idx = next((i for i, o in enumerate(o2) if any(e["ev"] == "PopWake" for e in o["events"])), None)
    if idx is not None:
        o2[idx]["events"] = [e for e in o2[idx]["events"] if e["ev"] != "PopWait"]
        bad_, cov = fam_market.validate_events(res, wd, [(o["sid"], o["events"]) for o in o2], "st-b2")
        expect(len(bad_) > 0, "a log with the PopWait events removed (hook removed) is rejected", fails)
    # 2d. tester verdict flipped
    hs = fam_consistency.gen_histories(res, wd, "reg", 2, 1, 4, 0, "st")
    recs, judged = fam_consistency.replay_and_judge(wd, hs[:2000])
    expect(all(not j["failed"] for j in judged), "2000 tester replays accepted", fails)
    # corrupt: flip lin.consistent
    import fam_consistency as fc
    rp = os.path.join(wd, "flip.ndjson")
    flipped = copy.deepcopy(recs[:500])
    for r_ in flipped:
        r_["lin"]["consistent"] = not r_["lin"]["consistent"]
    write_ndjson(rp, flipped)
    op = os.path.join(wd, "flip.json")
    r = run_tlc("JudgeTesters.tla", "cfg/empty.cfg", env=dict(RECS=rp, OUT=op), timeout=900, name="st-flip")
    jj = json.load(open(op))["judged"]
    expect(all(x["failed"] for x in jj), "a flipped linearizability verdict is rejected for every history", fails)
    shutil.rmtree(wd, ignore_errors=True)
    if fails:
        log("SELFTEST FAILED: %d" % len(fails))
        return 1
    log("selftest ok")
    return 0
