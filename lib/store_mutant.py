#!/usr/bin/env python3
"""store_mutant.py <prop> <k> <missed_first:0|1> <detected_by ...>  -- copies /tmp/mut/<prop>-out/<k> into seeded/<prop>-<k>/"""
import sys, os, shutil, json
pid, k, missed = sys.argv[1], sys.argv[2], sys.argv[3] == "1"
by = sys.argv[4:]
src = "/tmp/mut/%s-out/%s" % (pid, k)
dst = "/verif/seeded/%s-%s" % (pid, k)
os.makedirs(dst, exist_ok=True)
shutil.copy(src + "/patch.diff", dst + "/patch.diff")
shutil.copy(src + "/demo.rs", dst + "/demo.rs")
meta = dict(property=pid, source="independent sub-agent given only the property text and a scratch worktree",
            what_it_needs_to_manifest=open(src + "/meta.txt").read().strip(),
            confirmed="lib/confirm_mutant.sh in a scratch worktree: demo passes without the patch; with the patch the crate compiles, cargo test --lib gives the same 84 passed / 3 failed, and the demo fails",
            ran="lib/try_mutant_wt.sh <worktree> patch.diff <checks> (quick tier; a copy of the harness pointed at the patched worktree)",
            detected_by=by, missed_before_strengthening=missed)
json.dump(meta, open(dst + "/meta.json", "w"), indent=1)
print(dst)
