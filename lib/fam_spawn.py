"""C17: the UDP actor runtime (spawn) and Id <-> address conversion."""
import os, json, random
from vlib import *


def jcmds(cmds):
    return json.dumps(cmds, separators=(",", ":"))


def send(to, p=None):
    return dict(c="send", to=to, p=jcmds(p or []))


def setT(t, lo, hi=None):
    return dict(c="set", t=t, lo=lo, hi=lo if hi is None else hi)


def cancel(t):
    return dict(c="cancel", t=t)


def gen_scenario(rng, sid):
    n = rng.choice([1, 2, 2, 3])
    actors = []
    for a in range(n):
        start = []
        if rng.random() < 0.4:
            start.append(setT(1, rng.choice([5, 20, 40]), rng.choice([40, 60])))
        if rng.random() < 0.3:
            start.append(send(-1, []))
        # (no sends to peer actors from on_start: the peer's socket may not be bound yet, and a datagram to an unbound
        #  UDP port is lost by the OS -- that is not something the runtime can be blamed for)
        timers = {}
        for t in (1, 2):
            prog = []
            r = rng.random()
            if r < 0.4:
                prog.append(send(-1, []))
            elif r < 0.6 and n > 1:
                prog.append(send((a + 1) % n, []))
            if rng.random() < 0.2:
                prog.append(setT(t, rng.choice([10, 30])))       # periodic re-arm
            # a timer handler that cancels / re-arms the OTHER timer (which may have expired at the same moment)
            q2 = rng.random()
            if q2 < 0.35:
                prog.insert(0, cancel(3 - t))
            elif q2 < 0.5:
                prog.insert(0, setT(3 - t, rng.choice([40, 80])))
            timers[str(t)] = jcmds(prog)
        actors.append(dict(start=jcmds(start), timers=timers))
    steps = []
    if sid % 3 == 0:
        # an EMPTY datagram is a datagram: the handler must be called with the (empty) message
        steps.append(dict(k="send", to=rng.randrange(n), p="", garbage=False))
    for _ in range(rng.randint(2, 7)):
        r = rng.random()
        to = rng.randrange(n)
        if r < 0.25:
            steps.append(dict(k="wait", ms=rng.choice([5, 15, 40])))
        elif r < 0.32:
            steps.append(dict(k="send", to=to, p=rng.choice(["not json", "{\"c\":1}", "[1,2"]), garbage=True))
        else:
            cmds = []
            for _ in range(rng.randint(0, 3)):
                q = rng.random()
                if q < 0.3:
                    cmds.append(send(-1, []))
                elif q < 0.5 and n > 1:
                    cmds.append(send(rng.randrange(n), [send(-1, [])] if rng.random() < 0.5 else []))
                elif q < 0.75:
                    cmds.append(setT(rng.choice([1, 2]), rng.choice([0, 10, 30, 60]), rng.choice([60, 90])))
                else:
                    cmds.append(cancel(rng.choice([1, 2])))
            # set-cancel-re-arm sequences within one handler
            if rng.random() < 0.2:
                cmds += [setT(1, 50), cancel(1), setT(1, 20)]
            # both timers armed with the same (possibly zero) duration: they expire in the same loop iteration
            if rng.random() < 0.25:
                d = rng.choice([0, 0, 5, 20])
                cmds += [setT(1, d), setT(2, d)]
            # a datagram larger than one MTU (the runtime must deliver the whole message)
            if rng.random() < 0.15:
                cmds += [cancel(2) if k % 2 else cancel(1) for k in range(rng.choice([50, 120, 400]))] + [send(-1, [])]
            steps.append(dict(k="send", to=to, p=jcmds(cmds), garbage=False))
    # make sure periodic timers stop: cancel everything at the end, then settle
    for a in range(n):
        steps.append(dict(k="wait", ms=30))
    for a in range(n):
        steps.append(dict(k="send", to=a, p=jcmds([cancel(1), cancel(2)]), garbage=False))
    return dict(sid=sid, actors=actors, steps=steps, settle_ms=200)


def validate(res, wd, outs, tag):
    ep = os.path.join(wd, "ev-%s.ndjson" % tag)
    op = os.path.join(wd, "ev-%s.json" % tag)
    n = 0
    with open(ep, "w") as f:
        for o in outs:
            evs = [dict(ev="New", a=o["n"], us=0, calls_before=0, src=-3, payload="", t=0, cmds=[], id_ok=True)] + o["events"]
            for e in evs:
                e = dict(e)
                e["run"] = o["sid"]
                f.write(json.dumps(e, separators=(",", ":")) + "\n")
                n += 1
    r = run_tlc("SpawnRuntime.tla", "cfg/SpawnRuntime.cfg", env=dict(EVENTS=ep, OUT=op), workers=1, timeout=2400, name="spawn-" + tag,
                heap="4g", deque=True)
    if not r["ok"]:
        raise ToolError("spawn trace validation did not consume the log: %s\n%s" % (r["violated"], r["out"][-2500:]))
    o = json.load(open(op))
    if o["n"] != n:
        raise ToolError("trace validation lost events")
    return o["bad"], n


def c17(res):
    rng = random.Random(seed() * 1000 + 17)
    q = res.tier == "quick"
    wd = workdir("C17-%s" % res.tier)
    # Id <-> address
    ip = os.path.join(wd, "idaddr.ndjson")
    io = os.path.join(wd, "idaddr.json")
    run_vh(["idaddr", "--out", ip, "--seed", str(seed()), "--n", "3000" if q else "60000"], timeout=600)
    r = run_tlc("JudgeIdAddr.tla", "cfg/empty.cfg", env=dict(RECS=ip, OUT=io), timeout=2400, name="jidaddr", heap="6g")
    if not r["ok"]:
        raise ToolError("idaddr judge failed: " + r["out"][-2000:])
    o = json.load(open(io))
    recs = read_ndjson(ip)
    for i in o["bad"][:20]:
        res.violation("id_addr_conversion", dict(check="idaddr", record=recs[i - 1]))
    if not o["injective"]:
        res.violation("id_addr_not_injective", dict(check="idaddr"))
    res.evaluations += len(recs)
    res.nontrivial += len(recs)
    res.notes.append("Id <-> SocketAddrV4: %d ids (all with bytes in {0,1,127,128,255} + seeded random 48-bit) judged against IdAddr.tla" % len(recs))
    # runtime traces
    scs = [gen_scenario(rng, i + 1) for i in range(40 if q else 400)]
    pending = scs
    final = {}
    for attempt in range(3):
        sp = os.path.join(wd, "sc-%d.ndjson" % attempt)
        so = os.path.join(wd, "out-%d.ndjson" % attempt)
        write_ndjson(sp, pending)
        run_vh(["spawn", "--in", sp, "--out", so], timeout=3000)
        outs = read_ndjson(so)
        bad, nev = validate(res, wd, outs, "a%d" % attempt)
        kinds = res.extra.setdefault("event_kinds_validated", {})
        for o_ in outs:
            for e in o_["events"]:
                kinds[e["ev"]] = kinds.get(e["ev"], 0) + 1
        res.extra["runtime_events_validated"] = res.extra.get("runtime_events_validated", 0) + nev
        bad_by = {}
        for b in bad:
            bad_by.setdefault(b["run"], []).append(b)
        retry = []
        for o_ in outs:
            bs = bad_by.get(o_["sid"], [])
            # loopback UDP may drop a datagram under load: "never delivered" alone is retried (at most twice)
            only_loss = bs and all(set(b["why"]) <= {"datagram_never_delivered"} for b in bs)
            if only_loss and attempt < 2:
                retry.append(next(s for s in scs if s["sid"] == o_["sid"]))
            else:
                final[o_["sid"]] = (o_, bs)
        pending = retry
        if not pending:
            break
    for sid, (o_, bs) in sorted(final.items()):
        for b in bs:
            for why in b["why"]:
                res.violation("spawn/%s" % why, dict(check="spawn_trace", event=b, scenario=next(s for s in scs if s["sid"] == sid),
                                                     events=o_["events"][:60]))
    res.traces += len(final)
    res.evaluations += len(final)
    res.nontrivial += len([1 for (o_, bs) in final.values() if len(o_["events"]) > 6])
    one = final[min(final)][0]
    res.samples.append(dict(scenario=scs[0], events=one["events"][:10]))
    # design-level statistics: the trace spec's state count is what TLC explored
    res.states += res.extra.get("runtime_events_validated", 0)
    res.transitions += res.extra.get("runtime_events_validated", 0)
    res.rule = ("command-interpreter actors (a message is a list of commands to issue) run under the real spawn() on loopback "
                "UDP ports; seeded stimulus scripts (sends, waits, set/cancel/re-arm sequences, nested sends between 1-3 actors, "
                "unparsable datagrams) are played in real time; every handler call and harness send/receive is logged and the "
                "log is consumed by the trace spec SpawnRuntime.tla (start first and once, each on_msg matches a datagram in "
                "flight with the right source Id, each Send one datagram, timers fire only while armed and not before the lower "
                "bound, handlers see the previous handler's state)")
    res.assumptions += ["OS timings are sampled, not enumerated", "a datagram lost by loopback UDP is retried (the scenario is re-run at most twice)"]
    shutil.rmtree(wd, ignore_errors=True)
