"""Decision procedures: C08 (linearizability tester), C14 (sequential consistency tester), C18a (reference objects).

spec -> impl: TLC enumerates ALL histories within bounds from specs/MCHistories.tla (one JSON line each, with
theorems checked on every history); the harness replays them into the real testers; TLC judges the observations
against the definition-level specs/Consistency.tla (existence of a legal total order by exhaustive search)."""
import os, json, re, concurrent.futures as cf
from vlib import *

GEN = os.path.join(SPECS, "gen")


def gen_histories(res, wd, kind, threads, V, maxlen, badupto, label, simulate=0):
    os.makedirs(GEN, exist_ok=True)
    cfg = os.path.join(GEN, "MCHistories_%s.cfg" % label)
    with open(cfg, "w") as f:
        f.write("SPECIFICATION Spec\nCONSTANTS\n  Kind = \"%s\"\n  Threads = {%s}\n  V = %d\n  MaxLen = %d\n  BadUpTo = %d\n  Typed = %s\n"
                "INVARIANT LinImpliesSC\nINVARIANT PrefixClosed\nINVARIANT EmptyConsistent\nINVARIANT Emit\nCHECK_DEADLOCK FALSE\n"
                % (kind, ", ".join(str(t) for t in range(1, threads + 1)), V, maxlen, badupto, "TRUE" if simulate else "FALSE"))
    extra = ["-simulate", "num=%d" % simulate, "-depth", str(maxlen + 1), "-seed", str(seed())] if simulate else None
    r = run_tlc("MCHistories.tla", cfg, workers=1, timeout=3000, name="hist-" + label, heap="6g", extra=extra)
    res.add_tlc(r, "MCHistories[%s]" % label)
    if not r["ok"]:
        raise ToolError("MCHistories %s: theorem %s violated -- Consistency.tla is wrong\n%s" % (label, r["violated"], r["out"][-2000:]))
    hs = []
    for line in r["out"].splitlines():
        if line.startswith('<<"HIST", "') and line.endswith('">>'):
            body = line[len('<<"HIST", "'):-3]
            body = body.replace('\\"', '"').replace("\\\\", "\\")
            hs.append(json.loads(body))
    if simulate:
        # behaviours share prefixes: keep each history once
        seen, out = set(), []
        for h in hs:
            k = json.dumps(h, sort_keys=True)
            if k not in seen:
                seen.add(k)
                out.append(h)
        return out
    if len(hs) != r["distinct"]:
        raise ToolError("history lines %d != TLC distinct states %d" % (len(hs), r["distinct"]))
    return hs


def replay_and_judge(wd, hs, procs=10, chunk=6000):
    hp = os.path.join(wd, "hist.ndjson")
    rp = os.path.join(wd, "results.ndjson")
    write_ndjson(hp, hs)
    run_vh(["testers", "--in", hp, "--out", rp], timeout=3000)
    recs = read_ndjson(rp)
    if len(recs) != len(hs):
        raise ToolError("harness lost histories")
    parts = [recs[i:i + chunk] for i in range(0, len(recs), chunk)]

    def one(k):
        pp = os.path.join(wd, "res-%d.ndjson" % k)
        op = os.path.join(wd, "jt-%d.json" % k)
        write_ndjson(pp, parts[k])
        r = run_tlc("JudgeTesters.tla", "cfg/empty.cfg", env=dict(RECS=pp, OUT=op), timeout=3000,
                    name="jt-%s-%d" % (os.path.basename(wd), k), heap="3g")
        if not r["ok"]:
            raise ToolError("tester judge failed: " + r["out"][-2000:])
        return json.load(open(op))["judged"]
    out = []
    with cf.ThreadPoolExecutor(max_workers=procs) as ex:
        for j in ex.map(one, range(len(parts))):
            out.extend(j)
    return recs, out


PLANS = {
    # (kind, threads, values, max events, ill-formed step allowed up to this length (then <=2 more events))
    "quick": [("reg", 2, 2, 5, 0), ("reg", 2, 2, 3, 3), ("reg", 3, 1, 4, 0), ("wo", 2, 2, 4, 0), ("wo", 2, 1, 3, 3),
              ("vec", 2, 1, 4, 0), ("vec", 2, 1, 3, 3)],
    "thorough": [("reg", 2, 2, 6, 0), ("reg", 2, 1, 6, 0), ("reg", 3, 1, 5, 0), ("reg", 3, 2, 3, 3), ("wo", 2, 2, 5, 0),
                 ("wo", 3, 1, 5, 0), ("wo", 2, 2, 3, 3), ("vec", 2, 2, 5, 0), ("vec", 3, 1, 5, 0), ("vec", 2, 2, 3, 3)],
}

# sampled legs: (kind, threads, values, max events, number of TLC-simulated behaviours)
SAMPLED = {
    "quick": [("reg", 3, 2, 9, 700), ("vec", 3, 2, 8, 150), ("wo", 3, 2, 8, 150)],
    "thorough": [("reg", 3, 2, 10, 30000), ("reg", 4, 2, 10, 10000), ("vec", 3, 2, 9, 10000), ("wo", 3, 2, 9, 10000)],
}

FIELDS = {
    "C08": ["no_panic", "lin_verdict", "lin_ser", "lin_ser_iff", "lin_illformed", "lin_calls", "lin_len", "lin_invret"],
    "C14": ["no_panic", "sc_verdict", "sc_ser", "sc_ser_iff", "sc_illformed", "sc_calls", "sc_len", "sc_invret", "lin_implies_sc",
            "clone_isolated"],
}


def run(res, pid):
    wd = workdir("%s-%s" % (pid, res.tier))
    total = 0
    nontriv = set()
    plans = [(k, th, V, ml, bad, 0) for (k, th, V, ml, bad) in PLANS[res.tier]] + [(k, th, V, ml, 0, n) for (k, th, V, ml, n) in SAMPLED[res.tier]]
    for (kind, th, V, ml, bad, sim) in plans:
        label = "%s_t%d_v%d_l%d%s" % (kind, th, V, ml, "_sim%d" % sim if sim else "")
        hs = gen_histories(res, wd, kind, th, V, ml, bad, label, simulate=sim)
        recs, judged = replay_and_judge(wd, hs)
        total += len(hs)
        for rec, j in zip(recs, judged):
            for f in FIELDS[pid]:
                if f in j["failed"]:
                    res.violation("%s/%s" % (f, kind), dict(check=f, result=rec, spec=dict(wellformed=j["wf"], linearizable=j["lin"],
                                                                                          seq_consistent=j["sc"])))
            # non-trivial: well-formed with >= 2 operations where the two criteria or the verdict are not forced
            if j["wf"] and len(rec["h"]) >= 3:
                nontriv.add(json.dumps(rec["h"], sort_keys=True) + kind)
        res.notes.append("%s: %d histories; linearizable %d, seq-consistent %d, ill-formed %d" % (
            label, len(hs), sum(1 for j in judged if j["lin"]), sum(1 for j in judged if j["sc"]), sum(1 for j in judged if not j["wf"])))
        for rec, j in list(zip(recs, judged))[len(recs) // 2:len(recs) // 2 + 1]:
            res.samples.append(dict(kind=kind, history=rec["h"], tester_says=dict(lin=rec.get("lin", {}).get("consistent"), sc=rec.get("sc", {}).get("consistent")),
                                    spec_says=dict(lin=j["lin"], sc=j["sc"], wellformed=j["wf"])))
    res.traces += total
    res.evaluations += total
    res.nontrivial += len(nontriv)
    res.extra["exhaustive"] = False
    res.rule = ("(sampled legs *_sim*: longer histories with 3-4 threads drawn by TLC's simulation mode from the same generator "
                "spec with typed, plausible returns) ALL histories within the bounds listed in tlc_runs (threads x events x value alphabet, incl. mismatched return "
                "kinds and ill-formed steps followed by <=2 events) enumerated by TLC from MCHistories.tla and replayed into "
                "the real testers; non-trivial = distinct well-formed histories with >=3 events")
    res.assumptions += ["exhaustive only within the stated bounds on threads, events and values"]
    shutil.rmtree(wd, ignore_errors=True)


def c08(res):
    run(res, "C08")


def c14(res):
    run(res, "C14")


def refobjects(res):
    """C18a: invoke / is_valid_step / is_valid_history of the real reference objects on all (object state, op, ret)."""
    wd = workdir("C18a-%s" % res.tier)
    V, maxlen = (2, 4) if res.tier == "quick" else (3, 5)
    rp = os.path.join(wd, "ref.ndjson")
    run_vh(["refobjs", "--out", rp, "--values", str(V), "--maxlen", str(maxlen)], timeout=1200)
    recs = read_ndjson(rp)
    chunk = 8000
    parts = [recs[i:i + chunk] for i in range(0, len(recs), chunk)]

    def one(k):
        pp = os.path.join(wd, "ref-%d.ndjson" % k)
        op = os.path.join(wd, "jr-%d.json" % k)
        write_ndjson(pp, parts[k])
        r = run_tlc("JudgeRefObjects.tla", "cfg/empty.cfg", env=dict(RECS=pp, OUT=op), timeout=2400, name="jr-%d" % k, heap="3g")
        if not r["ok"]:
            raise ToolError("refobject judge failed: " + r["out"][-2000:])
        return json.load(open(op))
    outs = []
    with cf.ThreadPoolExecutor(max_workers=8) as ex:
        outs = list(ex.map(one, range(len(parts))))
    # the domain must have been covered completely: #prefixes * #ops * #rets per kind
    nops = {"reg": V + 1, "wo": V + 1, "vec": V + 2}
    nrets = {"reg": V + 2, "wo": V + 3, "vec": 1 + (V + 1) + (maxlen + 1)}
    want = sum(sum(nops[k] ** l for l in range(0, maxlen)) * nops[k] * nrets[k] for k in nops)
    if len(recs) != want or sum(o["distinct"] for o in outs) != want:
        raise ToolError("reference-object domain not covered: %d records, %d distinct, expected %d" % (
            len(recs), sum(o["distinct"] for o in outs), want))
    i = 0
    for o in outs:
        for j in o["judged"]:
            rec = recs[i]
            i += 1
            for f in j["failed"]:
                res.violation("%s/%s" % (f, rec["kind"]), dict(check=f, record=rec))
    res.traces += len(recs)
    res.evaluations += len(recs)
    res.nontrivial += len(recs)
    res.samples.append(recs[len(recs) // 3])
    res.notes.append("reference objects: all op sequences of length < %d over %d values as prefix, then every (op, ret): %d cases" % (maxlen, V, len(recs)))
    shutil.rmtree(wd, ignore_errors=True)


def register_harness(res):
    """C18b: register harness around an arbitrary at-most-once server."""
    import random
    rng = random.Random(seed() * 1000 + 18)
    q = res.tier == "quick"
    wd = workdir("C18b-%s" % res.tier)
    # design level: all interleavings of the harness spec
    os.makedirs(GEN, exist_ok=True)
    plans = [(1, 2, 1, "nondup", False, False), (1, 1, 2, "dup", True, False), (2, 1, 1, "ordered", False, False),
             (1, 1, 2, "dup", False, True), (1, 2, 1, "nondup", False, True)]
    if not q:
        plans += [(1, 2, 1, "dup", True, False), (1, 2, 1, "ordered", True, False), (2, 2, 1, "nondup", False, False), (1, 1, 2, "nondup", True, False),
                  (1, 3, 1, "nondup", False, False), (1, 2, 1, "dup", True, True), (1, 2, 2, "nondup", False, True), (2, 1, 2, "ordered", False, True)]
    for (S, C, P, net, lossy, wo) in plans:
        cfg = os.path.join(GEN, "MCRegisterHarness_%d_%d_%d_%s_%s_%s.cfg" % (S, C, P, net, lossy, wo))
        open(cfg, "w").write("SPECIFICATION Spec\nCONSTANTS\n  S = %d\n  C = %d\n  PutCount = %d\n  NetKind = \"%s\"\n  Lossy = %s\n  MaxNet = 4\n  WO = %s\n"
                             "CONSTRAINT Bound\nINVARIANT OneOutstanding\nINVARIANT HistoryWellFormed\nINVARIANT ClientsFollowProtocol\n"
                             "INVARIANT AwaitingMatchesHistory\nCHECK_DEADLOCK FALSE\n" % (S, C, P, net, "TRUE" if lossy else "FALSE", "TRUE" if wo else "FALSE"))
        r = run_tlc("MCRegisterHarness.tla", cfg, workers=8, timeout=2400, heap="8g", name="mcreg")
        res.add_tlc(r, "MCRegisterHarness[S=%d,C=%d,puts=%d,%s%s%s]" % (S, C, P, net, ",lossy" if lossy else "", ",write-once" if wo else ""))
        if not r["ok"]:
            raise ToolError("MCRegisterHarness: %s violated on the SPEC\n%s" % (r["violated"], r["out"][-3000:]))
    # real models
    systems = []
    for (S, C, P, net, lossy, wo) in plans + [(1, 2, 2, "nondup", False, False)]:
        systems.append(dict(servers=S, clients=C, put_count=P, network=net, lossy=lossy, wo=wo, max_states=3000 if q else 20000))
    sp = os.path.join(wd, "systems.ndjson")
    rp = os.path.join(wd, "recs.ndjson")
    op = os.path.join(wd, "out.json")
    write_ndjson(sp, systems)
    # the plain and the write-once harness are two different actor types: run each on its systems, keep the system index
    recs = []
    for mode, flag in (("register", False), ("wo_register", True)):
        idx = [i for i, s_ in enumerate(systems) if s_["wo"] == flag]
        if not idx:
            continue
        sp_m, rp_m = os.path.join(wd, "sys-%s.ndjson" % mode), os.path.join(wd, "recs-%s.ndjson" % mode)
        write_ndjson(sp_m, [systems[i] for i in idx])
        run_vh([mode, "--in", sp_m, "--out", rp_m], timeout=3000)
        # records are self-contained states in the recorder's breadth-first order, each carrying its whole message log.
        # On a harness whose clients never stop the logs (and the file) grow without bound and the judge would die of
        # size (a tool error instead of a verdict): judge the first 40 MB of each mode and only states whose log has at most 150 entries (conforming logs have ~15), which is everything on a
        # conforming tree (a few MB) and contains the early states, where a protocol violation first shows, otherwise
        budget, kept, dropped = 40_000_000, 0, 0
        with open(rp_m) as fh:
            for line in fh:
                if not line.strip():
                    continue
                if budget - len(line) < 0 and '"summary"' not in line[:200]:
                    dropped += 1
                    continue
                x = json.loads(line)
                if not x.get("summary") and len(x["state"]["log"]) > 150:
                    dropped += 1          # (the judge's folds over the log are recursive: thousands of entries overflow its stack)
                    continue
                budget -= len(line)
                x["sys"] = idx[x["sys"] - 1] + 1
                recs.append(x)
                kept += 1
        if dropped:
            res.notes.append("%s: %d oversized state records were not judged (%d were)" % (mode, dropped, kept))
    write_ndjson(rp, recs)
    for x in recs:
        if x.get("summary") and x.get("panicked"):
            res.violation("panic/register_harness", dict(check="panic", system=systems[x["sys"] - 1]))
    r = run_tlc("JudgeRegister.tla", "cfg/empty.cfg", env=dict(SYSTEMS=sp, RECS=rp, OUT=op), timeout=3000, heap="10g", name="jreg")
    if not r["ok"]:
        raise ToolError("register judge failed: " + r["out"][-2500:])
    o = json.load(open(op))
    nt = 0
    for j in o["states"]:
        nt += 1 if j["nontrivial"] else 0
        for f in j["failed"]:
            res.violation("%s/register_harness" % f, dict(check=f, system=systems[j["sys"] - 1], state=recs[j["idx"] - 1]["state"]))
    res.traces += len(systems)
    res.evaluations += len(o["states"])
    res.nontrivial += nt
    st = [x for x in recs if not x.get("summary")]
    res.samples.append(dict(system=systems[0], state=st[len(st) // 2]["state"]))
    res.notes.append("register harness: %d reachable states of %d real models judged (log mirrors tester, protocol, well-formedness)" % (len(o["states"]), len(systems)))
    shutil.rmtree(wd, ignore_errors=True)


def c18(res):
    refobjects(res)
    register_harness(res)
    import fam_graph
    if res.tier == "thorough":
        fam_graph.example_single_copy(res, clients=(2, 3))
        fam_graph.example_abd(res)
        fam_graph.example_paxos(res)
    else:
        # the shipped Paxos example (register clients + record hooks + tester state in every state) against Paxos.tla
        fam_graph.example_paxos(res, clients=(1, 2))
    res.rule = ("(a) reference objects: every (object state reached by a prefix, op, ret) within bounds: invoke / is_valid_step / "
                "is_valid_history vs RefObjects.tla; (b) RegisterActor clients + record hooks around a chaos server (answers each "
                "request at most once, any order, any value, or never) on all network kinds: every reachable state of the real "
                "model: recorded tester history = projection of the client-visible message log, well-formed, one outstanding "
                "operation, fresh ids; the same system is model-checked as a TLA+ spec (MCRegisterHarness)")
    res.assumptions += ["request ids, values and destinations of the clients are judged against the documented protocol (k * client id, "
                        "'A'+k then 'Z'-k, round-robin servers)"]
