#!/usr/bin/env python3
"""Regenerates /verif/MANIFEST.json from the table below (single source of truth for the registration)."""
import json, os, subprocess
ROOT = os.path.dirname(os.path.dirname(os.path.abspath(__file__)))

CHECKS = {
 "C01": dict(technique="TLA+ trace/observation validation: real bfs/dfs/on-demand runs judged by TLC against Graph.tla/CheckerObs.tla; TLC's own exploration of the same graphs as independent count oracle",
             text="Every recorded run (visitor log, counts) of the real checkers on thousands of generated table models x strategies x thread counts is judged by TLC against the semantic definition of the reachable in-boundary set (Graph!Reach); TLC itself explores the same graphs and must find the same number of states. Exhaustive over all graphs with <=2 nodes (thorough), sampled beyond.",
             note="trusts TLC's evaluator and the JSON projection of the harness (node ids, paths); real thread interleavings are sampled, not enumerated", ref="4/C01"),
 "C02": dict(technique="TLA+ observation validation: discoveries/assert_properties of real runs judged by TLC against Violated/Witnessed over Graph!Reach; TLC invariants on MCGraph as second model checker",
             text="Verdict exactness (iff) for always/sometimes properties is judged by TLC for every completed real run on generated labelled graphs; MCGraph invariants make TLC's own search agree with the operators used as oracle.",
             note="trusts TLC; completion is recognised from the configuration (no early-exit condition) and the run's own discoveries", ref="4/C02"),
 "C03": dict(technique="TLA+ observation validation: every path from discoveries() of all five strategies judged by Graph!ValidWitness",
             text="Each reported path (states and actions) of every run, for all five strategies x finish conditions x targets x seeds x threads, is re-validated by TLC against the table model: real in-boundary execution, right last state, eventually-paths never meet the condition and are maximal (or close a cycle in simulation). The finished run's Checker::report text and discovery_classification are judged too: the Done line carries the checker's counts, exactly the discoveries are listed with the classification belonging to their expectation and a fingerprint path denoting the same states.",
             note="trusts TLC and the harness projection; interleavings sampled", ref="4/C03"),
 "C06": dict(technique="TLA+ whole-graph conformance: every reachable state of real ActorModels (all enabled actions, successors, ignored actions) judged by TLC against ActorSystem.tla; TLC explores the same systems (MCActorSystem) with design-level invariants",
             text="For every reachable state of thousands of generated table-actor systems x 3 network kinds x lossy x crash budgets x history hooks, the real model's actions()/next_state()/init_states()/next_steps() are compared by TLC with Enabled/Apply/IsIgnored/InitState of the specification; by induction the reachable graphs coincide, and TLC's own exploration finds the same number of states.",
             note="handlers are represented by tables over small alphabets; trusts TLC and the JSON projection", ref="4/C06"),
 "C07": dict(technique="TLA+ whole-graph conformance of network contents + TLC model checking of transport guarantees over history variables (MCNetHistory) + Network observers judged against NetLen/AllEnvs/Deliverable",
             text="Send/deliver/drop effects of the real Network on every reachable state of generated systems conform to ActorSystem.tla, whose transport guarantees (ordered: consumed+queued = sent per flow; non-duplicating: sent = delivered+dropped+in flight; duplicating: in flight iff sent since last drop) TLC checks in every interleaving within a send bound; len/iter_all/iter_deliverable are judged per state.",
             note="MCNetHistory is bounded (<=6 sends, <=7 consumptions per behaviour)", ref="4/C07"),
 "C09": dict(technique="TLA+ whole-graph conformance with crash budgets + TLC invariants CrashedSilent/CrashCommutes/CrashOffered + real checker state counts vs TLC's count",
             text="Crash actions and their effects on every reachable state conform to the specification; TLC checks on the spec that crashed actors are silent and that crashing commutes with every step of other actors; every subset of actors within the budget occurs as a recorded crashed-set, and unique_state_count() of real BFS/DFS equals the number of distinct states (and TLC's own count).",
             note="table actors over small alphabets; budgets 1, 2, n with <=3 actors", ref="4/C09"),
 "C15": dict(technique="TLA+ whole-graph conformance of adapter-wrapped models against the spec of the UNWRAPPED tables",
             text="Systems wrapped in Choice (every position of 1-3 level nestings), RegisterActor::Server, WORegisterActor::Server and scripted Vec clients must have exactly the reachable graph that ActorSystem.tla assigns to the unwrapped tables (messages, timers, cancel, random choices all used).",
             note="adapter tag is stripped by the projection after being checked", ref="4/C15"),
 "C04": dict(technique="TLA+ judge over recorded hasher byte streams of all reachable states (stream is an injective function of the abstract state) + real BFS/DFS unique counts vs TLC's distinct-state count",
             text="For every reachable state of generated actor systems the byte stream fed to the Hasher is recorded; TLC judges that equal abstract states give equal streams and distinct ones distinct streams, and that the real checkers count exactly the distinct states TLC finds on the specification. Equality (==) is observed as well: every pair of container values of a category is compared in both orders and real states are compared with stored states of the same and of other abstract states; the recorded projection is canonical (no empty flow, no random-choice key without alternatives) and the code is required to keep its states canonical too. Identity.tla judges 14 categories of container / clock / network / tester values built in several concrete ways.",
             note="64-bit collisions of the final ahash are out of scope", ref="4/C04"),
 "C08": dict(technique="TLA+ definition-level spec of linearizability (existence of a legal total order by exhaustive search, Consistency.tla); TLC enumerates all histories within bounds (MCHistories) which are replayed into the real tester and judged by TLC",
             text="Every history within the bounds (2-3 threads, up to 5-7 events, register / write-once register / stack alphabets incl. mismatched return kinds and ill-formed steps) is generated by TLC, replayed into LinearizabilityTester, and its verdict, returned serialization, Ok/Err results and len are judged by TLC against the definition; exhaustive within the bounds.",
             note="bounded histories; theorems LinImpliesSC and prefix-closure are checked on the same enumeration to validate the definition", ref="4/C08"),
 "C14": dict(technique="same pipeline as C08 with the sequential-consistency definition (program order only) + clone isolation observations judged by TLC",
             text="Exhaustive (within bounds) agreement of SequentialConsistencyTester with the definition-level spec, validity of its serializations, lin => sc on the real testers for every history, rejection and stickiness of ill-formed histories, and value semantics (extending a clone leaves the parent observably unchanged; clone-and-extend equals full replay).",
             note="bounded histories", ref="4/C14"),
 "C20": dict(technique="TLC-checked theorems of VectorClock.tla over the whole finite domain + pointwise agreement of the real functions with the spec on the same domain (TLC judge); DenseNatMap.tla likewise",
             text="The algebraic laws are proved by TLC on the specification for all clocks with <=3-4 components <=2; the real partial_cmp/eq/hash/merge_max/incremented agree with the spec on every pair of that domain, so the laws hold for the implementation there. DenseNatMap construction (all key orders, gaps, duplicates), get/iter/insert and rewrite under every plan are judged pointwise.",
             note="exhaustive only within the component bounds", ref="4/C20"),
 "C10": dict(technique="TLC-checked theorems of Symmetry.tla + TLC judge of from_values_to_sort/reindex/rewrite and of representative() on every reachable state of real actor systems + real symmetric DFS/simulation runs judged against the unreduced graph semantics",
             text="Stable-sort plan, reindex and 13 Rewrite impls are judged on all vectors with ties / all plans of size <=4; representative() of every recorded state of generated actor systems equals Permute(stable plan) of ActorSystem.tla; spawn_dfs with symmetry on generated symmetric process-vector models gives exact always/sometimes verdicts, covers every orbit, evaluates no more states than the unreduced graph has, and reports real paths.",
             note="symmetric models have 2-3 processes; Id-carrying table systems (local states, payloads, random values with Rewrite impls) exercise embedded Ids; Checker.tla with Symmetry = TRUE is model-checked for 1-2 workers (the enqueue-the-representative variant fails) and predicts real symmetric DFS runs step by step; examples/increment_lock.rs with .symmetry() must count exactly TLC's orbits", ref="4/C10"),
 "C05": dict(technique="TLC model checking of JobMarket.tla (safety, deadlock freedom, termination, stop propagation under fairness; 1-3 workers + timeout thread) + TLA+ trace validation of the real job market's event log (hooks) against JobMarketTrace.tla + big-graph runs judged against Graph!Reach",
             text="All interleavings of the lock-level protocol are explored by TLC on the spec (no job lost or duplicated, close only when idle, no lost wake-up, termination, a stop reason reaches every worker). The implementation is bound to it by validating, line by line, the event log emitted inside every critical section of the real JobBroker - scripted multi-thread scenarios and real bfs/dfs/on-demand runs with 1-16 threads and schedule perturbation on graphs of thousands of states - and by judging each run's visited set, counts and verdicts against the graph semantics; finish/target/panic stop reasons included (also when the caller waits with join_and_report; after a panic the model counts the evaluations begun by the other workers; on-demand runs with unservable requests queued before run_to_completion).",
             note="real interleavings are sampled; parking_lot primitives trusted; DashMap insert-if-absent races are covered at outcome level (exactly-once visits)", ref="4/C05"),
 "C12": dict(technique="TLC judge of HasDiscoveries::matches on the whole bounded domain + observation validation of runs over finish/target/depth/seed configurations (CheckerObs) + JobMarket.tla BoundedDelay (design) + timed timeout runs and market-log validation judged by TLC",
             text="matches() agrees with HasDiscoveries.tla on every property list <=3 x discovery subset x variant; real runs of all strategies x finish conditions x targets x depth limits x threads stop early only with a reason, reach the target unless exhausted, never evaluate beyond the depth limit (1-thread BFS evaluates everything nearer), replay the first simulation trace for a seed; timeouts stop every thread count within expiry + poll + slack on an unbounded model, and an unexpired timeout leaves counts and progress unchanged with the timeout thread never sleeping under the market lock.",
             note="wall-clock bounds include slack; OS timing is sampled", ref="4/C12"),
 "C16": dict(technique="TLC model checking of OrderedReliableLink.tla (all drop/duplicate/reorder/retransmission interleavings) + TLC judge of the property predicates on every reachable state of the real link-wrapped ActorModel + transition conformance with the protocol spec",
             text="The link protocol is model-checked for scripted systems (prefix / acknowledged-implies-handed / completion invariants; the as-found variant is kept as a failing mutant); the real ActorModel<ActorWrapper<..>> is enumerated through the Model API within the same boundary and TLC evaluates the same predicates on every real reachable state and compares every real transition with the spec; state counts of spec and code agree. The same link-wrapped actors are also driven directly with persistent owned states (the way actor::spawn calls handlers) along seeded random schedules; JudgeOrlSteps.tla judges every step against the protocol and the predicates on every state reached.",
             note="2-3 actors, <=4 messages, network boundary <=5 envelopes; wrapped actors are scripted senders / recorders that may answer what they are handed", ref="4/C16"),
 "C19": dict(technique="TLA+ judge (Explorer.tla) of the answers of a real Explorer instance on loopback, of Path API round trips and of on-demand request sequences; TLC's own exploration of the same graphs as count oracle",
             text="For generated graphs a real serve() instance is queried over HTTP for every execution up to depth 3 and for non-executions (404), its status endpoint before/after run-to-completion is decoded back to node paths and judged (counts, witness paths), Path::from_actions/encode/into_* are judged on all short action lists incl. disabled/ignored actions, and spawn_on_demand is driven by request sequences (requested pending states get evaluated, nothing unrequested is, completion equals BFS incl. verdicts and frontiers wider than one block). OnDemand.tla's request sequences are replayed into the real checker; OnDemandWorkers.tla (worker loop with channels, queues, blocks, market) is model-checked for 1-2 workers: safety, liveness, and refinement of OnDemand.tla at quiescence.",
             note="HTTP via loopback sockets; fingerprints mapped to nodes through Path::encode; depth <=3", ref="4/C19"),
 "C17": dict(technique="TLA+ trace validation (SpawnRuntime.tla) of real executions of instrumented actors under spawn() on loopback UDP + TLC judge of Id<->address conversions against IdAddr.tla",
             text="Handler invocations of command-interpreter actors run by the real UDP runtime, together with the harness's sends and receipts, are consumed event by event by the trace specification: on_start first and once, every on_msg matched to a datagram in flight with the source Id of its sender, one datagram per Send, timers firing only while armed and not before the lower bound of their latest arming, state threading between handlers, unparsable datagrams ignored. Id <-> SocketAddrV4 is judged on 15 625 structured + random 48-bit ids incl. round trips and injectivity.",
             note="OS timings sampled; loopback loss is retried; timing bound uses handler-entry clocks so it holds under any scheduling", ref="4/C17"),
 "C18": dict(technique="TLC judge of the reference objects on the whole bounded domain (RefObjects.tla) + TLC model checking of RegisterHarness.tla + TLC judge of every reachable state of real register-harness models (log vs recorded tester history)",
             text="invoke/is_valid_step/is_valid_history of register, write-once register and vec agree with the specification for every object state reached by a short prefix and every (op, ret); the harness protocol (clients, hooks, arbitrary at-most-once server, three network kinds) is model-checked as a spec, and in every reachable state of the real ActorModel the LinearizabilityTester's recorded history equals the projection of the logged client-visible messages, is well-formed, with one outstanding operation and fresh request ids per client.",
             note="bounded: <=2 servers, <=3 clients, put_count <=2, network <=4 messages; plain and write-once harness; quick tier runs the shipped Paxos example (register clients, record hooks, tester state) by the real checker against Paxos.tla (exact unique and generated state counts); thorough tier adds 3 clients (1.19 M states) and the single-copy and ABD register examples against SingleCopy.tla / Abd.tla", ref="4/C18"),
 "C11": dict(technique="TLA+ observation validation against Graph!EvCex (maximal-path semantics), exactness on generated forests",
             text="Reported eventually-counterexamples are judged by TLC against the existence of a maximal in-boundary path avoiding the condition (terminal or cycle in the non-sat region); on forest-shaped graphs the converse is judged too.",
             note="trusts TLC; forests are recognised by Graph!IsForest", ref="4/C11"),
 "C13": dict(technique="TLA+ observation validation against BFS layers (Graph!Layers, MinWitnessDepth); TLC's BFS level as independent oracle",
             text="Visit order and discovery lengths of single-threaded spawn_bfs are judged by TLC against the layer structure of each generated graph; TLC's own BFS level of every state equals the layer index (MCGraph!LevelIsLayer).",
             note="trusts TLC", ref="4/C13"),
}

def main():
    props = [json.loads(l) for l in open(os.path.join(ROOT, "properties.jsonl"))]
    try:
        commits = subprocess.run(["git", "-C", "/repo", "log", "--format=%h %s"], stdout=subprocess.PIPE, text=True).stdout.splitlines()
    except Exception:
        commits = []
    hook_commits = [c.split()[0] for c in commits if c.split(" ", 1)[1].startswith("verif-hook:")]
    m = {
        "version": 1,
        "setup_cmd": "./check setup",
        "hooks": {
            "guard": "getong_stateright_verif",
            "enable": "harness/.cargo/config.toml passes --cfg getong_stateright_verif to rustc for the path dependency on /repo (rustflags)",
            "baseline_off_cmd": "cd /repo && cargo test --workspace --no-fail-fast --offline",
            "source_commits": hook_commits,
            "add_only": True,
        },
        "engines": [
            {"name": "tlc", "path": "/opt/veriftools/tla/tla2tools.jar", "serves_properties": sorted(CHECKS),
             "kind_free_text": "TLC model checks the TLA+ specifications under specs/ and is the judge of every record the Rust harness takes from the real code"},
            {"name": "vh", "path": "harness/", "serves_properties": sorted(CHECKS),
             "kind_free_text": "Rust harness (path dependency on /repo): drives the real stateright code and projects what it did to JSON; computes no verdicts"},
        ],
        "checks": [],
        "notes": "All checks go through ./check <ID> --tier quick|thorough; see DESIGN.md. known_findings.json lists genuine defects (fixed / known).",
        "not_applicable": [],
    }
    for p in props:
        pid = p["id"]
        if pid in CHECKS:
            c = CHECKS[pid]
            m["checks"].append({
                "property_id": pid,
                "quick_cmd": "./check %s --tier quick" % pid,
                "thorough_cmd": "./check %s --tier thorough" % pid,
                "evidence_file": "evidence/%s.json" % pid,
                "replay_cmd_template": "./check %s --replay {path}" % pid,
                "engine": "tlc",
                "level_claimed": {"category": "model_checking", "text": c["text"], "design_ref": c["ref"]},
                "level_note": c["note"],
                "technique": c["technique"],
            })
        else:
            m["not_applicable"].append({"property_id": pid, "reason": "no check registered"})
    json.dump(m, open(os.path.join(ROOT, "MANIFEST.json"), "w"), indent=1)

if __name__ == "__main__":
    main()
