"""Common plumbing for /verif/check: building the harness, running TLC, evidence, findings."""
import json, os, re, subprocess, sys, time, hashlib, shutil

ROOT = os.path.dirname(os.path.dirname(os.path.abspath(__file__)))
SPECS = os.path.join(ROOT, "specs")
# The overrides exist only so that seeded changes can be tried against a scratch worktree of /repo (a copy of the
# harness whose path dependency points at the worktree) without touching /repo or the committed evidence.
WORK = os.environ.get("VERIF_WORK") or os.path.join(ROOT, "work")
HARNESS = os.environ.get("VERIF_HARNESS") or os.path.join(ROOT, "harness")
VH = os.path.join(HARNESS, "target", "release", "vh")
EVID = os.environ.get("VERIF_EVID") or os.path.join(ROOT, "evidence")
REPLAYS = os.environ.get("VERIF_REPLAYS") or os.path.join(ROOT, "replays")
TLA_JAR = "/opt/veriftools/tla/tla2tools.jar"
TLA_CP = TLA_JAR + ":/opt/veriftools/tla/CommunityModules-deps.jar"


class ToolError(Exception):
    pass


def log(*a):
    print(*a, flush=True)


def seed():
    try:
        return int(os.environ.get("VERIF_SEED", "1"))
    except ValueError:
        return 1


def workdir(name):
    d = os.path.join(WORK, name)
    shutil.rmtree(d, ignore_errors=True)
    os.makedirs(d, exist_ok=True)
    return d


def build_harness():
    """cargo build of the harness (rebuilds /repo's working tree with hooks on)."""
    t0 = time.time()
    lock = os.path.join(HARNESS, "Cargo.lock")
    if not os.path.exists(lock):
        shutil.copy("/repo/Cargo.lock", lock)
    env = dict(os.environ, CARGO_NET_OFFLINE="true")
    # a shared lock so that concurrent checks do not fight over the target dir
    os.makedirs(WORK, exist_ok=True)
    import fcntl
    with open(os.path.join(WORK, ".build.lock"), "w") as lk:
        fcntl.flock(lk, fcntl.LOCK_EX)
        p = subprocess.run(["cargo", "build", "--release", "--offline"], cwd=HARNESS, env=env,
                           stdout=subprocess.PIPE, stderr=subprocess.STDOUT, text=True)
    if p.returncode != 0:
        sys.stdout.write(p.stdout[-6000:])
        raise ToolError("cargo build of the harness failed (the tree under /repo does not compile with hooks on)")
    return time.time() - t0


def run_vh(args, timeout=3600, env=None):
    e = dict(os.environ)
    if env:
        e.update(env)
    t0 = time.time()
    try:
        p = subprocess.run([VH] + args, stdout=subprocess.PIPE, stderr=subprocess.STDOUT, text=True,
                           timeout=timeout, env=e)
    except subprocess.TimeoutExpired:
        raise ToolError("harness timed out: vh " + " ".join(args))
    if p.returncode != 0:
        sys.stdout.write(p.stdout[-4000:])
        raise ToolError("harness failed (%d): vh %s" % (p.returncode, " ".join(args)))
    return time.time() - t0, p.stdout


_STATS = re.compile(r"(\d+) states generated, (\d+) distinct states found, (\d+) states left on queue")


def run_tlc(spec, cfg, env=None, workers=1, timeout=900, name=None, extra=None, heap="4g", deque=False,
            expect_violation=False):
    """Runs TLC. Returns dict(ok, generated, distinct, out, violated, wall). Raises ToolError on tool trouble."""
    name = name or os.path.splitext(os.path.basename(cfg))[0]
    md = os.path.join(WORK, "tlc-%s-%d" % (name, os.getpid()))
    shutil.rmtree(md, ignore_errors=True)
    os.makedirs(md, exist_ok=True)
    e = dict(os.environ)
    if env:
        e.update({k: str(v) for k, v in env.items()})
    jopts = "-Xss512m"
    if deque:
        jopts += " -Dtlc2.tool.queue.IStateQueue=StateDeque"
    e["JAVA_TOOL_OPTIONS"] = jopts
    cmd = ["java", "-XX:+UseParallelGC", "-Xmx" + heap, "-cp", TLA_CP, "tlc2.TLC", "-metadir", md, "-cleanup",
           "-noGenerateSpecTE", "-workers", str(workers), "-config", cfg]
    if extra:
        cmd += extra
    cmd.append(spec)
    t0 = time.time()
    try:
        p = subprocess.run(cmd, cwd=SPECS, env=e, stdout=subprocess.PIPE, stderr=subprocess.STDOUT, text=True,
                           timeout=timeout)
    except subprocess.TimeoutExpired:
        shutil.rmtree(md, ignore_errors=True)
        raise ToolError("TLC timed out after %ds on %s" % (timeout, cfg))
    shutil.rmtree(md, ignore_errors=True)
    out = p.stdout
    m = None
    for m in _STATS.finditer(out):
        pass
    gen, dist = (int(m.group(1)), int(m.group(2))) if m else (0, 0)
    violated = None
    mv = re.search(r"Invariant (\S+) is violated", out)
    if mv:
        violated = mv.group(1)
    elif "is violated" in out or "Temporal properties were violated" in out:
        violated = "property"
    elif "Deadlock reached" in out:
        violated = "deadlock"
    elif re.search(r"Assumption .* is false", out):
        violated = "assumption"
    ok = ("Model checking completed. No error has been found." in out) or \
         ("Finished in" in out and violated is None and "Error:" not in out)
    if not ok and violated is None:
        sys.stdout.write(out[-5000:])
        raise ToolError("TLC failed on %s / %s" % (spec, cfg))
    if violated is not None and not expect_violation:
        pass
    return dict(ok=ok and violated is None, generated=gen, distinct=dist, out=out, violated=violated,
                wall=time.time() - t0)


def sany(spec):
    p = subprocess.run(["java", "-cp", TLA_CP, "tla2sany.SANY", spec], cwd=SPECS, stdout=subprocess.PIPE,
                       stderr=subprocess.STDOUT, text=True)
    bad = p.returncode != 0 or "Semantic errors" in p.stdout or "Parsing or semantic analysis failed" in p.stdout \
        or "*** Errors" in p.stdout or "Fatal errors" in p.stdout
    return (not bad), p.stdout


def write_ndjson(path, recs):
    with open(path, "w") as f:
        for r in recs:
            f.write(json.dumps(r, separators=(",", ":")))
            f.write("\n")


def read_ndjson(path):
    out = []
    with open(path) as f:
        for line in f:
            line = line.strip()
            if line:
                out.append(json.loads(line))
    return out


def load_findings():
    p = os.path.join(ROOT, "known_findings.json")
    if not os.path.exists(p):
        return []
    return json.load(open(p))["findings"]


def write_evidence(pid, tier, level, coverage, wall, violations, assumptions):
    os.makedirs(EVID, exist_ok=True)
    ev = dict(property_id=pid, tier=tier, seed=seed(), level=level, coverage=coverage,
              assumptions=assumptions, wall_s=round(wall, 2), violations=violations)
    with open(os.path.join(EVID, pid + ".json"), "w") as f:
        json.dump(ev, f, indent=1)
    return ev


def save_replay(pid, payload):
    os.makedirs(REPLAYS, exist_ok=True)
    blob = json.dumps(payload, sort_keys=True)
    h = hashlib.sha1(blob.encode()).hexdigest()[:10]
    path = os.path.join(REPLAYS, "%s-%s.json" % (pid, h))
    with open(path, "w") as f:
        json.dump(payload, f, indent=1)
    return path


class Result:
    """Accumulates the outcome of one property check."""

    def __init__(self, pid, tier):
        self.pid, self.tier = pid, tier
        self.t0 = time.time()
        self.states = 0
        self.transitions = 0
        self.traces = 0
        self.evaluations = 0
        self.nontrivial = 0
        self.samples = []
        self.violations = []      # list of (signature, payload)
        self.known = []           # list of (finding, count)
        self.notes = []
        self.assumptions = []
        self.extra = {}
        self.rule = ""
        self.tlc_cmds = []

    def add_tlc(self, r, label=""):
        self.states += r["distinct"]
        self.transitions += r["generated"]
        self.tlc_cmds.append("%s: %d generated / %d distinct in %.1fs" % (label, r["generated"], r["distinct"], r["wall"]))

    def violation(self, signature, payload):
        self.violations.append((signature, payload))

    def finish(self):
        """Classify against known findings, write evidence, print lines, return exit code."""
        findings = [f for f in load_findings() if f["property"] == self.pid]
        unknown = []
        known_hits = {}
        for sig, payload in self.violations:
            hit = None
            for f in findings:
                if f.get("status") == "known" and f["signature"] == sig:
                    hit = f
                    break
            if hit:
                known_hits.setdefault(hit["key"], [hit, 0])[1] += 1
            else:
                unknown.append((sig, payload))
        for key, (f, n) in sorted(known_hits.items()):
            log("KNOWN-FINDING: property=%s %s (%s; %d occurrence(s) this run)" % (self.pid, f["what"], key, n))
        rc = 0
        seen = set()
        for sig, payload in unknown:
            if sig in seen:
                continue
            seen.add(sig)
            path = save_replay(self.pid, dict(property=self.pid, signature=sig, case=payload))
            log("VIOLATION property=%s replay=%s" % (self.pid, path))
            log("  signature: %s" % sig)
            rc = 1
            if len(seen) >= 5:
                break
        cov = dict(states=max(self.states, 0), transitions=max(self.transitions, 0),
                   traces_validated_against_impl=self.traces, evaluations=self.evaluations,
                   distinct_nontrivial=self.nontrivial, rule=self.rule, samples=self.samples[:6],
                   tlc_runs=self.tlc_cmds, notes=self.notes, exhaustive=bool(self.extra.get("exhaustive", False)))
        for k, v in self.extra.items():
            cov[k] = v
        write_evidence(self.pid, self.tier, "model_checking", cov, time.time() - self.t0, len(unknown),
                       self.assumptions)
        log("%s %s: %s in %.1fs (TLC states %d, impl traces %d, evaluations %d, non-trivial %d)" % (
            self.pid, self.tier, "OK" if rc == 0 else "VIOLATED", time.time() - self.t0, self.states, self.traces,
            self.evaluations, self.nontrivial))
        return rc
