"""Pure functions: C20 (vector clocks, dense maps), C10a (stable sorting plan, reindex, rewrite)."""
import os, json, concurrent.futures as cf
from vlib import *


def run_algebra(res, wd, what, l, m, fields, seed_=1, label=None):
    rp = os.path.join(wd, "%s.ndjson" % what)
    run_vh(["algebra", "--out", rp, "--what", what, "--l", str(l), "--m", str(m), "--seed", str(seed_)], timeout=1200)
    recs = read_ndjson(rp)
    chunk = 6000
    parts = [recs[i:i + chunk] for i in range(0, len(recs), chunk)]

    def one(k):
        pp = os.path.join(wd, "%s-%d.ndjson" % (what, k))
        op = os.path.join(wd, "%s-%d.json" % (what, k))
        write_ndjson(pp, parts[k])
        r = run_tlc("JudgeAlgebra.tla", "cfg/empty.cfg", env=dict(RECS=pp, OUT=op), timeout=2400, name="ja-%s-%d" % (what, k), heap="3g")
        if not r["ok"]:
            raise ToolError("algebra judge failed: " + r["out"][-2000:])
        return json.load(open(op))["judged"]
    judged = []
    with cf.ThreadPoolExecutor(max_workers=8) as ex:
        for j in ex.map(one, range(len(parts))):
            judged += j
    if len(judged) != len(recs):
        raise ToolError("judge lost records")
    n_app = 0
    for rec, j in zip(recs, judged):
        app = [f for f in j["applied"] if fields is None or f in fields]
        if app:
            n_app += 1
        for f in j["failed"]:
            if fields is None or f in fields:
                res.violation("%s/%s" % (f, rec.get("kind", rec["rec"])), dict(check=f, record=rec))
    res.traces += len(recs)
    res.evaluations += len(recs)
    res.nontrivial += n_app
    res.samples.append(recs[len(recs) // 2])
    res.notes.append("%s: %d cases judged" % (label or what, len(recs)))
    return recs


def mc_algebra(res, L, M):
    os.makedirs(os.path.join(SPECS, "gen"), exist_ok=True)
    cfg = os.path.join(SPECS, "gen", "MCAlgebra_%d_%d.cfg" % (L, M))
    open(cfg, "w").write("SPECIFICATION Spec\nCONSTANTS\n  L = %d\n  M = %d\nINVARIANT PairLaws\nCHECK_DEADLOCK FALSE\n" % (L, M))
    r = run_tlc("MCAlgebra.tla", cfg, workers=8, timeout=2400, name="mcalg")
    res.add_tlc(r, "MCAlgebra[L=%d,M=%d]" % (L, M))
    if not r["ok"]:
        raise ToolError("MCAlgebra: law %s fails on the SPEC\n%s" % (r["violated"], r["out"][-2000:]))


C20_FIELDS = ["cmp", "eq", "merge", "hash_eq", "inc", "inc_greater", "from_accepts", "from_values", "insert", "dnm_rewrite",
              "dnm_index", "dnm_into_iter", "dnm_same", "dnm_index_mut", "dnm_neq"]
C10A_FIELDS = ["plan", "reindex", "reindex_sorted", "reindex_ids", "rewrite", "rewrite_last", "dnm_rewrite"]


def c20(res):
    wd = workdir("C20-%s" % res.tier)
    q = res.tier == "quick"
    L, M = (3, 2) if q else (4, 2)
    mc_algebra(res, L, M)
    run_algebra(res, wd, "vc", L, M, C20_FIELDS, label="vector clocks: all pairs of sequences of length <=%d, components <=%d" % (L, M))
    run_algebra(res, wd, "vcbig", 3000 if q else 40000, 0, C20_FIELDS, seed_=seed(),
                label="vector clocks (sampled): up to 8 components drawn from {0,1,2,3,127,128,255,256,65535,65536,2^31-2}, pairs related by "
                      "trailing zeros / one edited component / truncation; increments at and beyond the end")
    run_algebra(res, wd, "dnm", 3 if q else 4, 2, C20_FIELDS, label="dense maps: all (key,value) pair lists (gaps, duplicates, every order), inserts, all plans")
    res.rule = ("the laws are TLC-checked theorems of VectorClock.tla over the whole finite domain (MCAlgebra: all pairs, triples "
                "for transitivity / least-upper-bound); the real partial_cmp / eq / merge_max / incremented / hash stream and "
                "DenseNatMap from_iter / get / iter / insert / rewrite / Index / IndexMut / IntoIterator / From<Vec> / FromIterator<V> / == / hash agree POINTWISE with the spec on the same domain")
    res.extra["exhaustive"] = True
    res.assumptions += ["exhaustive within the component bounds only (TLC cannot quantify over unbounded clocks)"]
    shutil.rmtree(wd, ignore_errors=True)


def c10a(res, wd):
    q = res.tier == "quick"
    run_algebra(res, wd, "plans", 4 if q else 5, 2, C10A_FIELDS, label="from_values_to_sort / reindex on all vectors with ties")
    run_algebra(res, wd, "containers", 6 if q else 40, 0, C10A_FIELDS, seed_=seed(), label="Rewrite impls of 13 container kinds under every plan of size 2-4")
    run_algebra(res, wd, "dnm", 3, 2, ["dnm_rewrite"], label="DenseNatMap rewrite")
