"""Actor-system family: C06 C07 C09 C15 (+ reachable-state half of C04).

The real ActorModel built from a table description is enumerated through the public Model API; every
recorded state (projection, all enabled actions, successors, network observers, hasher byte stream) is judged
by TLC against specs/ActorSystem.tla (whole-graph conformance). TLC also explores the same systems itself
(MCActorSystem: count oracle + design-level invariants; MCNetHistory: transport guarantees over history
variables)."""
import os, json, random, copy, concurrent.futures as cf
from vlib import *
import gen_actors as ga

STATE_FIELDS = {
    "C06": ["enabled", "trans", "init", "next_steps", "canonical_choices", "owned_calls"],
    "C07": ["trans", "init", "net_len", "iter_deliv", "iter_all", "canonical_net"],
    "C09": ["enabled", "trans", "crash_budget"],
    "C15": ["enabled", "trans", "init", "next_steps", "owned_calls"],
    "C04": ["canonical_net", "canonical_choices"],
}
SYS_FIELDS = {
    "C06": ["no_panic"],
    "C07": ["no_panic"],
    "C09": ["bfs_count", "dfs_count", "crash_sets", "no_panic"],
    "C15": ["no_panic"],
    "C04": ["stream_function", "stream_injective", "eq_faithful", "bfs_count", "dfs_count"],
}


def record(wd, systems, real_counts=True, tag="recs"):
    sp = os.path.join(wd, "systems-%s.ndjson" % tag)
    rp = os.path.join(wd, "%s.ndjson" % tag)
    write_ndjson(sp, systems)
    args = ["actors", "--in", sp, "--out", rp]
    if real_counts:
        args.append("--real-counts")
    run_vh(args, timeout=3000)
    return sp, read_ndjson(rp)


def judge(wd, systems, recs, procs=6, per_chunk=40, strict=False):
    """Judge records in chunks of whole systems."""
    by_sys = {}
    for r in recs:
        by_sys.setdefault(r["sys"], []).append(r)
    ids = sorted(by_sys)
    chunks = [ids[i:i + per_chunk] for i in range(0, len(ids), per_chunk)]

    def one(k):
        chunk = chunks[k]
        remap = {old: i + 1 for i, old in enumerate(chunk)}
        sp = os.path.join(wd, "jsys-%d.ndjson" % k)
        rp = os.path.join(wd, "jrecs-%d.ndjson" % k)
        op = os.path.join(wd, "jout-%d.json" % k)
        write_ndjson(sp, [systems[old - 1] for old in chunk])
        rs = []
        for old in chunk:
            for r in by_sys[old]:
                r2 = dict(r)
                r2["sys"] = remap[old]
                r2["gidx"] = r.get("_gidx", 0)
                rs.append(r2)
        write_ndjson(rp, rs)
        r = run_tlc("JudgeActors.tla", "cfg/empty.cfg", env=dict(SYSTEMS=sp, RECS=rp, OUT=op, STRICT="1" if strict else "0"), timeout=2400,
                    name="jact-%s-%d" % (os.path.basename(wd), k), heap="6g")
        if not r["ok"]:
            raise ToolError("actor judge failed: " + r["out"][-2500:])
        o = json.load(open(op))
        inv = {v: k2 for k2, v in remap.items()}
        st = []
        for j in o["states"]:
            st.append(dict(rec=rs[j["idx"] - 1], sys=inv[j["sys"]], failed=j["failed"], applied=j["applied"]))
        sy = [dict(sys=inv[j["sys"]], failed=j["failed"], applied=j["applied"]) for j in o["systems"]]
        return st, sy

    states, syss = [], []
    with cf.ThreadPoolExecutor(max_workers=procs) as ex:
        for st, sy in ex.map(one, range(len(chunks))):
            states += st
            syss += sy
    return states, syss


def mc_systems(res, wd, systems, recs, spec="MCActorSystem", workers=8, expect_count=True):
    summ = {r["sys"]: r for r in recs if r.get("summary")}
    finite = [s for i, s in enumerate(systems) if (i + 1) in summ and not summ[i + 1]["truncated"] and not summ[i + 1].get("panicked")]
    if not finite:
        return
    sp = os.path.join(wd, "mc-%s.ndjson" % spec)
    write_ndjson(sp, finite)
    r = run_tlc(spec + ".tla", "cfg/%s.cfg" % spec, env=dict(SYSTEMS=sp), workers=workers, timeout=2400, heap="8g",
                name="%s-%s" % (spec, os.path.basename(wd)))
    res.add_tlc(r, spec)
    if not r["ok"]:
        raise ToolError("%s: design-level invariant %s violated -- the SPEC is inconsistent (not a finding about the code)\n%s" % (
            spec, r["violated"], r["out"][-3000:]))
    if expect_count:
        want = sum(summ[i + 1]["known"] for i, s in enumerate(systems) if (i + 1) in summ and not summ[i + 1]["truncated"]
                   and not summ[i + 1].get("panicked"))
        res.notes.append("%s: TLC found %d distinct states on %d finite systems; the recorder (validated by conformance) found %d" % (
            spec, r["distinct"], len(finite), want))
        return r["distinct"], want
    return r["distinct"], None


def run_family(res, pid, systems, state_fields, sys_fields, real_counts=True, net_history=False, count_is_property=False, strict=False):
    wd = workdir("%s-%s" % (pid, res.tier))
    sp, recs = record(wd, systems, real_counts=real_counts)
    states, syss = judge(wd, systems, recs, strict=strict)
    nstates = 0
    distinct_sys = set()
    conform_ok = True
    for j in states:
        nstates += 1
        if any(f in j["failed"] for f in ("enabled", "trans", "init")):
            conform_ok = False
        if any(f in j["applied"] for f in state_fields):
            distinct_sys.add(j["sys"])
        for f in state_fields:
            if f in j["failed"]:
                s = systems[j["sys"] - 1]
                sig = "%s/%s%s" % (f, s["network"], "/" + s["wrap"] if s.get("wrap", "none") != "none" else "")
                res.violation(sig, dict(check=f, system=s, record=j["rec"]))
    for j in syss:
        if any(f in j["applied"] for f in sys_fields if f != "no_panic"):
            distinct_sys.add(j["sys"])
        for f in sys_fields:
            if f in j["failed"]:
                s = systems[j["sys"] - 1]
                summ = [r for r in recs if r.get("summary") and r["sys"] == j["sys"]]
                res.violation("%s/%s" % (f, feature_sig(s)), dict(check=f, system=s, summary=summ))
    res.traces += len([r for r in recs if r.get("summary")])
    res.evaluations += nstates
    res.nontrivial += len(distinct_sys)
    res.extra["recorded_states_judged"] = res.extra.get("recorded_states_judged", 0) + nstates
    res.extra["recorded_transitions_judged"] = res.extra.get("recorded_transitions_judged", 0) + sum(
        len(r.get("edges", [])) + len(r.get("ignored", [])) for r in recs)
    # TLC's own exploration of the spec is only meaningful as a count oracle when the recorded graph conformed: finiteness of
    # a system is established by the recorder, and a non-conforming implementation may be finite where the spec is not
    cnt = mc_systems(res, wd, systems, recs) if conform_ok else None
    if not conform_ok:
        res.notes.append("MCActorSystem skipped: recorded states do not conform, so the recorder's finiteness verdict does not carry over to the spec")
    if cnt and cnt[0] != cnt[1] and not res.violations and conform_ok:
        # TLC's exploration of the spec and the recorder's exploration of the code disagree although every
        # recorded state conformed: the recorder missed states or the spec has states the code cannot reach
        raise ToolError("state counts differ: TLC %d vs recorder %d" % cnt)
    if net_history and conform_ok:
        small = [s for s in systems if s["max_crashes"] == 0]
        small = [dict(s, history="none") for s in small][:60 if res.tier == "quick" else 400]
        summ = {r["sys"]: r for r in recs if r.get("summary")}
        idx = {id(s): i for i, s in enumerate(systems)}
        wd2 = wd
        sp2 = os.path.join(wd2, "nh.ndjson")
        fin = [s for s in small]
        write_ndjson(sp2, fin)
        r = run_tlc("MCNetHistory.tla", "cfg/MCNetHistory.cfg", env=dict(SYSTEMS=sp2), workers=8, timeout=2400, heap="8g",
                    name="nethist-" + os.path.basename(wd))
        res.add_tlc(r, "MCNetHistory")
        if not r["ok"]:
            raise ToolError("MCNetHistory: %s violated -- the network semantics of the SPEC break a transport guarantee\n%s" % (
                r["violated"], r["out"][-3000:]))
    for j in states[:3000:1100]:
        s = systems[j["sys"] - 1]
        res.samples.append(dict(system=s["id"], network=s["network"], lossy=s["lossy"], max_crashes=s["max_crashes"],
                                state=j["rec"]["state"], n_edges=len(j["rec"].get("edges", [])),
                                ignored=j["rec"].get("ignored", [])[:3], applied=j["applied"], failed=j["failed"]))
    shutil.rmtree(wd, ignore_errors=True)
    return states, syss, recs


def feature_sig(s):
    f = []
    if s["max_crashes"] > 0:
        f.append("crashes")
    if any(c["k"] == "choose" for a in s["actors"] for e in [a["start"]] + a["on_msg"] + a["on_timer"] + a["on_random"]
           for c in e["cmds"]):
        f.append("random_choices")
    if any(c["k"] in ("set", "cancel") for a in s["actors"] for e in [a["start"]] + a["on_msg"] + a["on_timer"] + a["on_random"]
           for c in e["cmds"]):
        f.append("timers")
    return "+".join(f) or "plain"


def corpus(rng, tier, full_variants=False, nrandom=(60, 1500), wrap="none"):
    systems = []
    for name, actors in ga.hand_written():
        systems += ga.variants(name, actors, rng, full=full_variants or tier == "thorough")
    n = nrandom[0] if tier == "quick" else nrandom[1]
    systems += [ga.random_system(rng, "R%d" % i) for i in range(n)]
    for i, s in enumerate(systems):
        s["wrap"] = wrap
        # the order of the builder calls (actors / crash budget) is immaterial
        s["builder_order"] = i % 3
    return systems


def c06(res):
    rng = random.Random(seed() * 1000 + 6)
    systems = corpus(rng, res.tier)
    res.rule = ("systems = hand-written table actors (ping-pong, timer renewal, cancel/set in one handler, random choices "
                "choose/overwrite/remove, identical messages, flows, no-op deliveries, crash-sensitive, self-sends, idle) x "
                "{ordered, duplicating, non-duplicating} x lossy x crash budgets x history hooks + seeded random tables; for "
                "EVERY reachable state of the real ActorModel: recorded enabled actions / successors / ignored actions = "
                "Enabled / Apply / IsIgnored of ActorSystem.tla. non-trivial = systems with >=1 judged state having enabled actions")
    run_family(res, "C06", systems, STATE_FIELDS["C06"], SYS_FIELDS["C06"], real_counts=False)
    if res.tier == "thorough":
        # protocol-scale oracle: the actor-model semantics applied to a real protocol reproduces TLC's state graph size
        import fam_graph
        fam_graph.example_paxos(res, clients=(2, 3))
    res.assumptions += ["handler tables are total functions of (state, event); behaviours of arbitrary Rust handlers are "
                        "represented by tables over 3 states / 3 messages / 2 timers / 3 random values",
                        "states are identified by their canonical projection, not by the model's own Hash/Eq"]


def c07(res):
    rng = random.Random(seed() * 1000 + 7)
    systems = corpus(rng, res.tier, nrandom=(80, 2000))
    res.rule = ("same corpus shape as C06 with emphasis on >=3 messages per flow, identical messages, several flows, sends "
                "interleaved with drops; per recorded state: len(), iter_all(), iter_deliverable() of the real Network vs "
                "NetLen/AllEnvs/Deliverable; transitions conform to Send/Deliver/Drop semantics; MCNetHistory checks the "
                "transport guarantees over history variables in every interleaving (bounded sends)")
    run_family(res, "C07", systems, STATE_FIELDS["C07"], SYS_FIELDS["C07"], real_counts=False, net_history=True)


def c09(res):
    rng = random.Random(seed() * 1000 + 9)
    systems = [s for s in corpus(rng, res.tier, full_variants=True, nrandom=(120, 2500)) if s["max_crashes"] > 0]
    res.rule = ("systems with crash budget 1, 2 or n: every reachable state's crash actions and successors conform to "
                "ActorSystem!Crash semantics; the set of crashed-actor combinations among recorded states = all subsets within "
                "budget; unique_state_count() of real spawn_bfs/spawn_dfs = number of distinct states (also = TLC's own count); "
                "MCActorSystem invariants CrashedSilent / CrashCommutes / CrashOffered / CrashedHaveNothingPending")
    run_family(res, "C09", systems, STATE_FIELDS["C09"], SYS_FIELDS["C09"], real_counts=True)


def c15(res):
    rng = random.Random(seed() * 1000 + 15)
    systems = []
    wraps = ["choice_l", "choice_lr", "choice_lrr", "register_server", "wo_register_server"]
    base = corpus(rng, res.tier, nrandom=(30, 600))
    for i, s in enumerate(base):
        for w in (wraps if i % 3 == 0 else [wraps[i % len(wraps)]]):
            s2 = copy.deepcopy(s)
            s2["wrap"] = w
            s2["id"] += "@" + w
            systems.append(s2)
    res.rule = ("every system of the C06 corpus shape wrapped in Choice<T,Never>, Choice<T,Choice<T,Never>> (both positions), "
                "three-level Choice (all positions), RegisterActor::Server(T), WORegisterActor::Server(T); the wrapped model's "
                "recorded graph (adapter tag stripped after checking it) must conform to ActorSystem.tla instantiated with the "
                "UNWRAPPED tables, i.e. be isomorphic to the unwrapped system")
    run_family(res, "C15", systems, STATE_FIELDS["C15"], SYS_FIELDS["C15"], real_counts=False, strict=True)
    scripted_clients(res)


def scripted_clients(res):
    """Vec<(Id, Msg)> scripted clients: spec = table 'on any message send script[i], i+1'."""
    rng = random.Random(seed() * 1000 + 151)
    systems = []
    n = 40 if res.tier == "quick" else 400
    for k in range(n):
        na = rng.choice([2, 2, 3])
        scripts = [[(rng.randrange(na), rng.randint(1, 3)) for _ in range(rng.choice([0, 1, 2, 3]))] for _ in range(na)]
        actors = []
        for sc in scripts:
            on_msg = []
            for i in range(1, len(sc)):
                for m in (1, 2, 3):
                    on_msg.append(ga.entry(i, True, i + 1, [ga.send(sc[i][0], sc[i][1])], msg=m))
            if sc:
                actors.append(ga.actor(1, [ga.send(sc[0][0], sc[0][1])], on_msg=on_msg))
            else:
                actors.append(ga.actor(0, []))
        s = ga.system("script%d" % k, actors, network=rng.choice(["ordered", "dup", "nondup"]), lossy=rng.random() < 0.3,
                      net_len=5, history=rng.choice(["none", "log"]), hist_len=40)
        s["wrap"] = "script"
        s["scripts"] = [[dict(dst=d, msg=m) for (d, m) in sc] for sc in scripts]
        systems.append(s)
    run_family(res, "C15s", systems, STATE_FIELDS["C15"], SYS_FIELDS["C15"], real_counts=False, strict=True)


def c04_actor_leg(res):
    rng = random.Random(seed() * 1000 + 4)
    systems = corpus(rng, res.tier, full_variants=True, nrandom=(80, 2000))
    run_family(res, "C04", systems, STATE_FIELDS["C04"], SYS_FIELDS["C04"], real_counts=True)


def orl_system(sid, scripts, net_len=4, lossy=True, ignore_even=None, replies=None):
    """replies: per actor, a list of (on, dst, msg): when handed `on` the wrapped actor sends `msg` to `dst`"""
    s = ga.system(sid, [ga.actor(0) for _ in scripts], network="dup", lossy=lossy, net_len=net_len, max_states=40000)
    s["wrap"] = "orl"
    s["ignore_even"] = list(ignore_even) if ignore_even else [False] * len(scripts)
    s["replies"] = [[dict(on=o, dst=d, msg=m) for (o, d, m) in (rs or [])] for rs in (replies or [[] for _ in scripts])]
    s["scripts"] = [[dict(dst=d, msg=m) for (d, m) in sc] for sc in scripts]
    return s


def orl_direct(res, wd, systems, rng, q):
    """the same link-wrapped actors driven directly (persistent owned states, as actor::spawn drives handlers) along seeded
    random schedules; TLC judges every step against the protocol spec and the C16 predicates on every state"""
    items = []
    for s in systems:
        x = dict(s)
        x.update(runs=(40 if q else 400), steps=(45 if len(s["scripts"]) <= 2 else 70), seed=rng.randint(1, 2 ** 40))
        items.append(x)
    sp, rp, op = os.path.join(wd, "direct-systems.ndjson"), os.path.join(wd, "direct-recs.ndjson"), os.path.join(wd, "direct-out.json")
    write_ndjson(sp, items)
    run_vh(["orl_direct", "--in", sp, "--out", rp], timeout=3000)
    recs = read_ndjson(rp)
    r = run_tlc("JudgeOrlSteps.tla", "cfg/JudgeOrl.cfg", env=dict(SYSTEMS=sp, RECS=rp, OUT=op), timeout=3000, heap="10g", name="jorlsteps")
    if not r["ok"]:
        raise ToolError("ORL step judge failed: " + r["out"][-2500:])
    o = json.load(open(op))
    drift, handed = 0, 0
    for j in o["states"]:
        rec = recs[j["idx"] - 1]
        for f in j["failed"]:
            if f in ("step", "init"):
                drift += 1
            else:
                # the schedule that led here: the actions of this run up to this step
                sched = [x["a"] for x in recs if x.get("sys") == rec.get("sys") and x.get("run") == rec.get("run") and x.get("step", 0) <= rec.get("step", 0)]
                res.violation("%s/orl_direct" % f, dict(check=f, system=systems[j["sys"] - 1], state=rec.get("to"), schedule=sched))
    if drift:
        log("SPEC-DRIFT: %d directly driven steps of the real link are not steps of OrderedReliableLink.tla (property predicates "
            "are still judged on every state reached)" % drift)
        res.notes.append("SPEC-DRIFT (direct driving): %d steps" % drift)
    for x in recs:
        if "to" in x and any(a["handed"] for a in x["to"]["actors"]):
            handed += 1
    res.traces += len(items) * items[0]["runs"]
    res.evaluations += len(recs)
    res.nontrivial += handed
    res.notes.append("direct driving (owned states, as the UDP runtime): %d steps of %d seeded schedules judged, %d drift" % (len(recs), len(items) * items[0]["runs"], drift))


def c16(res):
    """C16: ordered reliable link. Design: MCOrl (all drop/duplicate/reorder/retransmission interleavings, 3 invariants);
    the as-found protocol variant must violate Prefix (non-vacuity). Binding: the property predicates are judged by TLC on
    EVERY reachable state of the real ActorModel<ActorWrapper<..>> (recorded through the Model API), and every recorded
    transition is compared with the protocol spec (drift)."""
    rng = random.Random(seed() * 1000 + 16)
    q = res.tier == "quick"
    wd = workdir("C16-%s" % res.tier)
    systems = [orl_system("two_msgs", [[(1, 11), (1, 12)], []]),
               orl_system("two_dst", [[(1, 11), (2, 12), (1, 13)], [], []]),
               orl_system("bidir", [[(1, 11)], [(0, 21)]]),
               orl_system("two_senders", [[(2, 11), (2, 12)], [(2, 21)], []], net_len=4),
               orl_system("lossless", [[(1, 11), (1, 12), (1, 13)], []], net_len=5, lossy=False),
               # a receiver that ignores some messages (handler leaves its state untouched and sends nothing)
               orl_system("ignoring", [[(1, 10), (1, 11)], []], ignore_even=[False, True]),
               orl_system("ignoring3", [[(1, 11), (1, 12), (1, 13)], []], net_len=4, ignore_even=[False, True]),
               # traffic long after start: the link is idle (everything acknowledged, timer firing) before the next send
               orl_system("idle_then_more", [[(1, 11)], []], replies=[[(100, 1, 13)], [(11, 0, 100)]])]
    if not q:
        systems += [orl_system("idle_then_two", [[(1, 11)], []], replies=[[(100, 1, 13), (100, 1, 15)], [(11, 0, 100)]]),
                    orl_system("pingpong", [[(1, 11)], []], net_len=3, replies=[[(21, 1, 13), (23, 1, 15)], [(11, 0, 21), (13, 0, 23)]]),
                    orl_system("three_msgs", [[(1, 11), (1, 12), (1, 13)], []], net_len=5),
                    orl_system("cross", [[(1, 11), (1, 12)], [(0, 21), (0, 22)]], net_len=5),
                    orl_system("fan", [[(1, 11), (2, 12), (1, 13), (2, 14)], [], []], net_len=5)]
        for i in range(6):
            n = rng.choice([2, 3])
            scripts = [[(rng.choice([d for d in range(n) if d != a]), 10 * (a + 1) + k) for k in range(rng.randint(0, 3))] for a in range(n)]
            systems.append(orl_system("rand%d" % i, scripts, net_len=4))
    sp = os.path.join(wd, "systems.ndjson")
    write_ndjson(sp, systems)
    # design level
    r = run_tlc("MCOrl.tla", "cfg/MCOrl.cfg", env=dict(SYSTEMS=sp), workers=8, timeout=3000, heap="10g", name="mcorl")
    res.add_tlc(r, "MCOrl")
    if not r["ok"]:
        raise ToolError("MCOrl: %s violated on the protocol SPEC\n%s" % (r["violated"], r["out"][-3000:]))
    tlc_states = r["distinct"]
    r2 = run_tlc("MCOrl.tla", "cfg/MCOrl_asis.cfg", env=dict(SYSTEMS=sp), workers=4, timeout=1200, heap="6g", name="mcorl-asis")
    if r2["violated"] != "Prefix":
        raise ToolError("self-check: the as-found link protocol should violate Prefix, got %s" % r2["violated"])
    res.notes.append("self-check: the as-found protocol variant (one sequencer per sender, accept any larger sequencer) violates Prefix")
    # real model
    rp = os.path.join(wd, "recs.ndjson")
    run_vh(["actors", "--in", sp, "--out", rp], timeout=3000)
    recs = read_ndjson(rp)
    summ = [x for x in recs if x.get("summary")]
    if any(x.get("panicked") for x in summ):
        for x in summ:
            if x.get("panicked"):
                res.violation("panic/orl", dict(check="panic", system=systems[x["sys"] - 1]))
    op = os.path.join(wd, "out.json")
    r = run_tlc("JudgeOrl.tla", "cfg/JudgeOrl.cfg", env=dict(SYSTEMS=sp, RECS=rp, OUT=op), timeout=3000, heap="10g", name="jorl")
    if not r["ok"]:
        raise ToolError("ORL judge failed: " + r["out"][-2500:])
    o = json.load(open(op))
    states = [x for x in recs if not x.get("summary")]
    drift = 0
    for j in o["states"]:
        for f in j["failed"]:
            if f in ("conformance", "init"):
                drift += 1
            else:
                rec = recs[j["idx"] - 1]
                res.violation("%s/orl" % f, dict(check=f, system=systems[j["sys"] - 1], state=rec["state"]))
    if drift:
        log("SPEC-DRIFT: %d recorded states of the real link do not step like OrderedReliableLink.tla (property predicates are "
            "still judged on every real state)" % drift)
        res.notes.append("SPEC-DRIFT: %d states" % drift)
    known = sum(x["known"] for x in summ)
    if not drift and not any(x["truncated"] for x in summ) and known != tlc_states:
        raise ToolError("state counts differ: TLC %d vs recorded %d" % (tlc_states, known))
    res.traces += len(systems)
    res.evaluations += len(states)
    res.nontrivial += len([s for s in states if any(a["handed"] for a in s["state"]["actors"])])
    res.samples.append(dict(system=systems[1]["scripts"], state=states[len(states) // 2]["state"]))
    res.notes.append("real link: %d reachable states recorded over %d systems (TLC's own count on the spec: %d)" % (known, len(systems), tlc_states))
    orl_direct(res, wd, systems, rng, q)
    res.rule = ("scripted link-wrapped senders/receivers (2-3 actors, 1-4 messages, several destinations / senders / both "
                "directions) over the lossy duplicating network with retransmission timers; every reachable state of the real "
                "model within the boundary is judged (prefix, acknowledged => handed over, completion); non-trivial = states in "
                "which something has been handed over")
    res.extra["exhaustive"] = True
    shutil.rmtree(wd, ignore_errors=True)


def c04(res):
    """C04 = value level (Identity.tla) + all reachable states of actor systems (stream injective, real counts) + vector clocks."""
    wd = workdir("C04v-%s" % res.tier)
    rp, op = os.path.join(wd, "identity.ndjson"), os.path.join(wd, "identity.json")
    run_vh(["algebra", "--out", rp, "--what", "identity"], timeout=600)
    r = run_tlc("Identity.tla", "cfg/empty.cfg", env=dict(RECS=rp, OUT=op), timeout=1200, name="identity", heap="6g")
    if not r["ok"]:
        raise ToolError("Identity judge failed: " + r["out"][-2000:])
    # the consistency testers as values: replay TLC-generated histories, take the stream and the canonical rendering
    import fam_consistency
    hs = fam_consistency.gen_histories(res, wd, "reg", 2, 2, 4, 0, "c04id")
    hp, hr = os.path.join(wd, "hist.ndjson"), os.path.join(wd, "hist-out.ndjson")
    write_ndjson(hp, hs)
    run_vh(["testers", "--in", hp, "--out", hr], timeout=1200)
    with open(rp, "a") as f:
        for t in read_ndjson(hr):
            if "lin_key" in t:
                f.write(json.dumps(dict(rec="identity", cat="linearizability_tester", key=t["lin_key"], variant=0, stream=t["lin_stream"])) + "\n")
                f.write(json.dumps(dict(rec="identity", cat="sequential_consistency_tester", key=t["sc_key"], variant=0, stream=t["sc_stream"])) + "\n")
    r = run_tlc("Identity.tla", "cfg/empty.cfg", env=dict(RECS=rp, OUT=op), timeout=1200, name="identity", heap="6g")
    if not r["ok"]:
        raise ToolError("Identity judge failed: " + r["out"][-2000:])
    o = json.load(open(op))
    recs = read_ndjson(rp)
    nvals = 0
    for c in o["cats"]:
        nvals += c["v"]["values"]
        if c["v"]["split"]:
            res.violation("equal_values_hash_differently/%s" % c["cat"], dict(check="never_split", category=c["cat"],
                          examples=[x for x in recs if x["cat"] == c["cat"]][:40]))
        if c["v"]["merge"]:
            res.violation("distinct_values_hash_equally/%s" % c["cat"], dict(check="never_merge", category=c["cat"],
                          examples=[x for x in recs if x["cat"] == c["cat"]][:40]))
        if c["v"].get("eq_wrong"):
            res.violation("equality_disagrees_with_value/%s" % c["cat"], dict(check="eq_exact", category=c["cat"],
                          examples=[x for x in recs if x["cat"] == c["cat"] and x.get("eq_keys") not in (None, [x["key"]])][:40]))
    res.traces += len(recs)
    res.evaluations += len(recs)
    res.nontrivial += nvals
    res.notes.append("value level: %d abstract values in %d categories, %d concrete constructions; stream is an injective function of the value" % (
        nvals, len(o["cats"]), len(recs)))
    res.samples.append(recs[len(recs) // 2])
    # vector clocks: hash stream equal iff equal up to trailing zeros (single clocks)
    import fam_algebra
    fam_algebra.run_algebra(res, wd, "vc", 3, 2, ["hash_eq", "hash_ne", "eq"], label="vector clocks: stream equal iff equal up to trailing zeros")
    shutil.rmtree(wd, ignore_errors=True)
    c04_actor_leg(res)
    res.rule = ("value level: every abstract value of the container categories (adjacent sets / vectors of sets and timer sets / "
                "adjacent maps / sets of sets, maps to sets, sets as map keys / adjacent vector clocks / three network kinds incl. "
                "last_msg and multiplicities) built in 2-3 concrete ways; TLC judges that the recorded hasher byte stream is an "
                "injective function of the value. state level: every reachable state of generated actor systems (crash flags, "
                "random choices, timers, networks, histories): streams injective on abstract states and unique_state_count() of "
                "real BFS/DFS = number of distinct states = TLC's own count")
