"""Search-engine family: C01 C02 C03 C11 C13 (+ the configuration half of C12, C05, checker half of C10).

Real checker runs on table graphs are recorded by the Rust harness and judged by TLC with
specs/CheckerObs.tla; the same corpus is explored by TLC itself (specs/MCGraph.tla) as an independent
model checker whose counts must agree with the semantic operators."""
import os, json, random, concurrent.futures as cf
from vlib import *
import gen_graphs as gg

FIELDS = {
    "C01": ["paths", "subset", "once", "complete", "no_panic", "recorders"],
    "C02": ["verdicts", "asserts", "report", "no_panic", "early_assert"],
    "C03": ["witness", "report", "no_panic"],
    "C11": ["ev_sound", "ev_exact", "no_panic"],
    "C13": ["bfs_order", "shortest", "no_panic"],
}


def judge(wd, graphs, runs, chunk=4000, procs=6):
    """TLC evaluates CheckerObs!Checks for every run. Returns list of judged records (same order)."""
    gpath = os.path.join(wd, "graphs.ndjson")
    write_ndjson(gpath, graphs)
    parts = [runs[i:i + chunk] for i in range(0, len(runs), chunk)]

    def one(k):
        rp = os.path.join(wd, "runs-%d.ndjson" % k)
        op = os.path.join(wd, "judged-%d.json" % k)
        write_ndjson(rp, parts[k])
        r = run_tlc("JudgeRuns.tla", "cfg/empty.cfg", env=dict(GRAPHS=gpath, RUNS=rp, OUT=op), timeout=1800,
                    name="judge-%s-%d" % (os.path.basename(wd), k), heap="6g")
        if not r["ok"]:
            raise ToolError("judge failed: " + r["out"][-2000:])
        o = json.load(open(op))
        if o["n"] != len(parts[k]):
            raise ToolError("judge lost records")
        return o["judged"]

    out = []
    with cf.ThreadPoolExecutor(max_workers=procs) as ex:
        for j in ex.map(one, range(len(parts))):
            out.extend(j)
    return out


def mc_graph(res, wd, graphs, label="MCGraph"):
    """TLC explores the corpus itself; returns its distinct-state count."""
    gpath = os.path.join(wd, "mc-graphs.ndjson")
    write_ndjson(gpath, graphs)
    r = run_tlc("MCGraph.tla", "cfg/MCGraph.cfg", env=dict(GRAPHS=gpath), timeout=1800, name="mcgraph-" + os.path.basename(wd))
    res.add_tlc(r, label)
    if not r["ok"]:
        # the semantic operators disagree with TLC's own exploration: the spec is wrong, not the code
        raise ToolError("MCGraph invariant %s violated: Graph.tla operators disagree with TLC's exploration\n%s" % (
            r["violated"], r["out"][-2500:]))
    return r["distinct"]


def execute(wd, items, par=8, timeout=3600):
    ip = os.path.join(wd, "items.ndjson")
    rp = os.path.join(wd, "runs.ndjson")
    write_ndjson(ip, items)
    t, _ = run_vh(["graphs", "--in", ip, "--out", rp, "--par", str(par)], timeout=timeout)
    return read_ndjson(rp)


def signature(field, run, j=None):
    c = run["cfg"]
    sig = "%s/%s%s" % (field, c["strategy"], "+sym" if c.get("symmetry") else "")
    if field == "witness" and j is not None and j.get("wdetail"):
        sig += ":" + "+".join(sorted(j["wdetail"]))
    return sig


def run_family(res, pid, fields, graphs, cfgs_for, par=8, reach_oracle=True):
    """graphs: list of graph dicts; cfgs_for(i, g) -> list of cfgs."""
    wd = workdir("%s-%s" % (pid, res.tier))
    items = [dict(g=g, gi=i + 1, cfgs=cfgs_for(i, g)) for i, g in enumerate(graphs)]
    items = [it for it in items if it["cfgs"]]
    runs = execute(wd, items, par=par)
    judged = judge(wd, graphs, runs)
    byrid = {r["rid"]: r for r in runs}
    reach_by_g = {}
    applied_n = 0
    distinct = set()
    for j in judged:
        run = byrid[j["rid"]]
        reach_by_g[run["gi"]] = j["feat"]["reach"]
        app = [f for f in fields if f in j["applied"]]
        if app:
            applied_n += 1
            key = (run["gi"], json.dumps(run["cfg"], sort_keys=True))
            if j["feat"]["reach"] >= 2:
                distinct.add(key)
        for f in fields:
            if f in j["failed"]:
                g = graphs[run["gi"] - 1]
                res.violation(signature(f, run, j), dict(check=f, graph=g, run=run))
    res.traces += len(runs)
    res.evaluations += len(runs)
    res.nontrivial += len(distinct)
    if reach_oracle:
        used = [graphs[gi - 1] for gi in sorted(reach_by_g)]
        d = mc_graph(res, wd, used)
        want = sum(reach_by_g.values())
        if d != want:
            raise ToolError("TLC explored %d distinct states but the Reach operator says %d" % (d, want))
        res.notes.append("TLC's own exploration of the %d graphs found %d states = sum |Reach(g)| from Graph.tla" % (len(used), d))
    # samples: a few judged runs written out
    for j in judged[:2000:700]:
        run = byrid[j["rid"]]
        g = graphs[run["gi"] - 1]
        res.samples.append(dict(graph={k: g[k] for k in ("n", "init", "succ", "inb", "props")}, cfg=run["cfg"],
                                visits=[v["node"] for v in run["visits"]][:40], done=run["done"],
                                applied_checks=j["applied"], failed_checks=j["failed"]))
    res.extra.setdefault("runs_with_property_checks_applied", 0)
    res.extra["runs_with_property_checks_applied"] += applied_n
    shutil.rmtree(wd, ignore_errors=True)
    return runs, judged


def sizes(tier, quick, thorough):
    return quick if tier == "quick" else thorough


def std_cfgs(threads_list, strategies=("bfs", "dfs", "ondemand"), **kw):
    return [gg.base_cfg(s, t, **kw) for s in strategies for t in threads_list]


def force_sentinel(g):
    if not any(p["name"] == "keep" for p in g["props"]):
        g["props"].append(dict(kind="always", name="keep", sat=list(range(1, g["n"] + 1))))
    return g


def c01(res):
    rng = random.Random(seed() * 1000 + 1)
    q = res.tier == "quick"
    graphs = gg.f1_corpus(rng, 500 if q else None)
    graphs += [force_sentinel(gg.random_graph(rng, "F2-%d" % i)) for i in range(250 if q else 2500)]
    graphs += [force_sentinel(gg.random_forest(rng, "F3-%d" % i)) for i in range(60 if q else 600)]
    graphs += [force_sentinel(gg.random_graph(rng, "F2b-%d" % i, 9, 14)) for i in range(40 if q else 500)]
    # property lists WITHOUT an always-true sentinel: what keeps the checker exploring is an eventually-property that
    # never gets a counterexample (it holds everywhere), possibly next to properties that are discovered at once
    for i in range(200 if q else 1500):
        g = gg.random_graph(rng, "F2e-%d" % i, 3, 10, sentinel=False)
        n = g["n"]
        props = [dict(kind="eventually", name="ev", sat=list(range(1, n + 1)))]
        if rng.random() < 0.5:
            props.insert(rng.randint(0, 1), dict(kind="sometimes", name="start", sat=list(g["init"])))
        if rng.random() < 0.3:
            props.append(dict(kind="eventually", name="ev2", sat=list(range(1, n + 1))))
        g["props"] = props
        graphs.append(g)
    threads = [1, 2, 3] if q else [1, 2, 3, 4, 8, 16]

    nf1 = len([g for g in graphs if g["id"].startswith("F1-")])

    def cfgs(i, g):
        if not q and g["id"].startswith("F1-"):
            return std_cfgs([1]) + ([gg.base_cfg("bfs", 2), gg.base_cfg("dfs", 3)] if i % 5 == 0 else [])
        c = std_cfgs(threads if i % 4 == 0 else threads[:2])
        if i % 2 == 0:
            for x in c:
                x["recorders"] = True      # the crate's PathRecorder / StateRecorder are fed next to the log visitor
        return c
    res.rule = ("graphs: F1 = all graphs with <=2 nodes/<=2 actions x inits x boundaries (sampled in quick), F2 = seeded "
                "random graphs 3-14 nodes with self-loops, joins, cycles, parallel and ignored actions, several inits, "
                "boundaries; F3 forests; x {bfs, dfs, on-demand run-to-completion} x threads. non-trivial = distinct "
                "(graph, configuration) with >=2 reachable states for which a C01 conjunct had a true antecedent")
    run_family(res, "C01", FIELDS["C01"], graphs, cfgs)
    # graphs larger than one 1500-state block (block boundaries, work sharing): light visitor log, judged per graph
    import fam_market
    wd = workdir("C01big-%s" % res.tier)
    big = fam_market.f4_graphs(rng, q)[: (4 if q else 12)]
    for g in big:
        g["props"] = fam_market.big_props(rng)

    def bcfgs(i, g):
        # (deep DFS paths on the big affine graphs: without the recording visitor, see fam_market.deep_dfs)
        return [gg.base_cfg(s, t, light=True, watchdog_ms=60000, no_visitor=fam_market.deep_dfs(g, s))
                for s in ("bfs", "dfs", "ondemand") for t in ((1, 2) if q else (1, 2, 4))]
    fam_market.checker_runs(res, "C01", big, bcfgs, ["edges", "subset", "once", "complete", "evals_once"], wd, "c01big")
    shutil.rmtree(wd, ignore_errors=True)
    # design level: the faithful algorithm spec with all worker interleavings; drift of the real code from it
    small = gg.f1_corpus(rng, 20) + [gg.random_graph(rng, "ck-%d" % i, 3, 4, nprops=rng.randint(1, 2)) for i in range(15 if q else 60)] \
        + [gg.random_forest(rng, "ckf-%d" % i, 3, 5) for i in range(6 if q else 20)]
    checker_design(res, small, q)
    if not q:
        example_2pc(res, sizes=(3, 5))
    res.assumptions += ["initial states of a model are distinct (the property's own proviso)",
                        "the recording visitor's mutex orders visits; only set/multiset facts are judged"]


def c02(res):
    rng = random.Random(seed() * 1000 + 2)
    q = res.tier == "quick"
    graphs = gg.f1_corpus(rng, 400 if q else 9000)
    graphs = [g for g in graphs if all(p["kind"] != "eventually" for p in g["props"])]
    n2 = 400 if q else 4000
    for i in range(n2):
        g = gg.random_graph(rng, "F2-%d" % i, 3, 9, nprops=rng.randint(1, 4), sentinel=rng.random() < 0.6)
        for p in g["props"]:
            if p["kind"] == "eventually":
                p["kind"] = rng.choice(["always", "sometimes"])
        graphs.append(g)
    threads = [1, 2] if q else [1, 2, 4]
    res.rule = ("graphs labelled by 1-5 always/sometimes properties (with and without a never-discovered sentinel, so both "
                "'frontier exhausted' and 'all properties discovered' endings occur) x {bfs, dfs, on-demand} x threads; "
                "verdicts judged against Violated/Witnessed over Reach(g); assert_properties() outcome judged too")
    def cfgs(i, g):
        c = std_cfgs(threads)
        for x in c:
            x["report"] = True      # the textual report of the finished run carries the same counts and verdicts
        # waiting with join_and_report instead of join changes nothing
        c += [gg.base_cfg(s_, 2, join_and_report=True, report=True) for s_ in ("bfs", "dfs")]
        return c
    # assert_properties asked while the check is still running (slow chains: each evaluation takes 2.5 ms, the question is
    # put 3 ms after spawning): it must not succeed, whatever has or has not been discovered so far
    nslow = len(graphs)
    for k in range(6):
        n = 40
        last = [n]
        props = [[dict(kind="always", name="holds", sat=list(range(1, n + 1)))],
                 [dict(kind="always", name="deep_bad", sat=list(range(1, n)))],
                 [dict(kind="always", name="holds", sat=list(range(1, n + 1))), dict(kind="sometimes", name="start", sat=[1])],
                 [dict(kind="sometimes", name="start", sat=[1]), dict(kind="always", name="deep_bad", sat=list(range(1, n)))],
                 [dict(kind="always", name="holds", sat=list(range(1, n + 1))), dict(kind="sometimes", name="deep_good", sat=last)],
                 [dict(kind="always", name="holds", sat=list(range(1, n + 1))), dict(kind="always", name="deep_bad", sat=list(range(1, n)))]][k]
        graphs.append(dict(id="slowchain-%d" % k, family="table", params=[], poison=0, rep=[], n=n, init=[1], succ=[[i + 2] for i in range(n - 1)] + [[0]], inb=[True] * n,
                           props=props, slow_us=2500))

    def cfgs2(i, g):
        if i >= nslow:
            return [gg.base_cfg(s_, t, early_assert=True) for s_ in ("bfs", "dfs") for t in (1, 2)]
        return cfgs(i, g)
    runs_, judged_ = run_family(res, "C02", FIELDS["C02"], graphs, cfgs2)
    n_early = sum(1 for j in judged_ if "early_assert" in j["applied"])
    if n_early == 0:
        raise ToolError("assert_properties was never asked of a check that was still running (0 of 24 runs: vacuous)")
    res.notes.append("assert_properties asked of a check that was still running: %d runs" % n_early)
    # graphs larger than a block: verdicts decided by states deep in the graph (formula properties)
    import fam_market
    wd = workdir("C02big-%s" % res.tier)
    big = fam_market.f4_graphs(rng, q)[: (3 if q else 10)]
    for g in big:
        n = g["n"]
        g["props"] = [dict(kind="always", name="keep", sat=[], mode="all", m=0, r=0),
                      dict(kind="always", name="deep_bad", sat=[], mode="mod", m=1, r=0),          # placeholder, replaced below
                      dict(kind="sometimes", name="deep_good", sat=[], mode="mod", m=n, r=(n * 2 // 3) % n),
                      dict(kind="sometimes", name="nowhere", sat=[], mode="none", m=0, r=0)]
        # "deep_bad" holds everywhere except at one state: always s % n != k  <=>  NOT (s % n = k); expressed as a sometimes-style
        # formula is not available for always, so use two complementary properties instead
        g["props"][1] = dict(kind="sometimes", name="deep_single", sat=[], mode="mod", m=n, r=(n // 2 + 7) % n)

    def bcfgs(i, g):
        return [gg.base_cfg(s, t, light=True, watchdog_ms=60000, no_visitor=fam_market.deep_dfs(g, s))
                for s in ("bfs", "dfs", "ondemand") for t in ((1, 2) if q else (1, 2, 4))]
    fam_market.checker_runs(res, "C02", big, bcfgs, ["complete", "verdicts"], wd, "c02big")
    shutil.rmtree(wd, ignore_errors=True)


def all_strategy_cfgs(rng, i, g, threads):
    out = []
    for s in ("bfs", "dfs", "ondemand"):
        for t in threads:
            kw = {}
            r = rng.random()
            if r < 0.35:
                kw["finish"] = gg.finish_menu(rng, g)
            elif r < 0.5:
                kw["target_states"] = rng.randint(1, 12)
            elif r < 0.6 and s != "ondemand":
                kw["target_depth"] = rng.randint(1, 5)
            out.append(gg.base_cfg(s, t, **kw))
    if any(g["inb"][s - 1] for s in g["init"]):
        for t in (1, 2):
            kw = dict(target_states=rng.choice([5, 20, 60]), seed=rng.randint(0, 2 ** 32))
            if rng.random() < 0.3:
                kw["finish"] = gg.finish_menu(rng, g)
            if rng.random() < 0.3:
                kw["target_depth"] = rng.randint(1, 5)
            out.append(gg.base_cfg("sim", t, **kw))
    return out


def sym_cfgs(rng, g):
    """DFS / simulation with symmetry reduction on a symmetric graph (plus the unreduced DFS)"""
    c = [gg.base_cfg("dfs", t, symmetry=True) for t in (1, 2)]
    c.append(gg.base_cfg("dfs", 1))
    c.append(gg.base_cfg("sim", 1, symmetry=True, target_states=40, seed=rng.randint(0, 2 ** 32)))
    if rng.random() < 0.3:
        c.append(gg.base_cfg("dfs", 1, symmetry=True, finish=gg.finish_menu(rng, g)))
    return c


def c03(res):
    rng = random.Random(seed() * 1000 + 3)
    q = res.tier == "quick"
    graphs = gg.f1_corpus(rng, 300 if q else 6000)
    graphs += [gg.random_graph(rng, "F2-%d" % i, 3, 9) for i in range(400 if q else 4000)]
    graphs += [gg.random_forest(rng, "F3-%d" % i) for i in range(100 if q else 1200)]
    threads = [1, 2] if q else [1, 2, 4]
    nplain = len(graphs)
    graphs += [gg.symmetric_graph(rng, "F5-%d" % i, eventually=True) for i in range(150 if q else 1500)]
    res.rule = ("all five strategies (simulation with seeds, 1-2 threads) x finish conditions x targets x depth limits on "
                "graphs with 1-5 mixed properties; every path returned by discoveries() judged by Graph!ValidWitness "
                "(+ its action list re-executed on the table)")
    def cfgs(i, g):
        c = all_strategy_cfgs(rng, i, g, threads) if i < nplain else sym_cfgs(rng, g)
        for x in c:
            x["report"] = True      # also take Checker::report / discovery_classification of the finished run
        return c
    run_family(res, "C03", FIELDS["C03"], graphs, cfgs)
    sim_design(res, rng, q)


def c11(res):
    rng = random.Random(seed() * 1000 + 11)
    q = res.tier == "quick"
    graphs = [g for g in gg.f1_corpus(rng, None) if any(p["kind"] == "eventually" for p in g["props"])]
    graphs = rng.sample(graphs, 300 if q else 5000)
    graphs += [gg.random_forest(rng, "F3-%d" % i) for i in range(300 if q else 3000)]
    for i in range(250 if q else 2500):
        g = gg.random_graph(rng, "F2-%d" % i, 3, 9)
        if not any(p["kind"] == "eventually" for p in g["props"]):
            g["props"][0]["kind"] = "eventually"
        graphs.append(g)
    threads = [1, 2] if q else [1, 2, 4]

    nplain = len(graphs)
    graphs += [gg.symmetric_graph(rng, "F5-%d" % i, eventually=True) for i in range(150 if q else 1500)]

    def cfgs(i, g):
        if i >= nplain:
            return sym_cfgs(rng, g)
        c = std_cfgs(threads)
        c += [x for x in all_strategy_cfgs(rng, i, g, [1]) if x["strategy"] == "sim"]
        # depth limits: a state whose successors are cut off by the limit is NOT the end of a maximal path
        c += [gg.base_cfg(s_, 1, target_depth=rng.randint(2, 5)) for s_ in ("bfs", "dfs", "ondemand")]
        return c
    res.rule = ("graphs with eventually-properties: general graphs (soundness: a reported counterexample implies a maximal "
                "in-boundary non-satisfying path exists, EvCex) and forests (exactness) x all strategies incl. simulation "
                "with boundaries and depth limits")
    run_family(res, "C11", FIELDS["C11"], graphs, cfgs)
    sim_design(res, rng, q)


def c13(res):
    rng = random.Random(seed() * 1000 + 13)
    q = res.tier == "quick"
    graphs = gg.f1_corpus(rng, 400 if q else None)
    graphs += [gg.random_graph(rng, "F2-%d" % i, 4, 12) for i in range(600 if q else 6000)]
    graphs += [gg.random_forest(rng, "F3-%d" % i, 4, 12) for i in range(100 if q else 1000)]

    def cfgs(i, g):
        c = [gg.base_cfg("bfs", 1)]
        if i % 3 == 0:
            c.append(gg.base_cfg("bfs", 1, finish=gg.finish_menu(rng, g)))
        return c
    res.rule = ("single-threaded spawn_bfs on graphs with joins, several initial states and boundaries: visit order judged "
                "against BFS layers (Graph!Layers), discovery length against MinWitnessDepth; TLC's own BFS level equals "
                "the layer (MCGraph!LevelIsLayer)")
    run_family(res, "C13", FIELDS["C13"], graphs, cfgs)
    # more than one 1500-state block: depth order across block boundaries, shortest witnesses deep in the graph
    import fam_market
    wd = workdir("C13big-%s" % res.tier)
    big = [g for g in fam_market.f4_graphs(rng, q) if g["family"] in ("tree", "grid", "affine")][: (3 if q else 8)]
    for g in big:
        n = g["n"]
        g["props"] = [dict(kind="always", name="keep", sat=[], mode="all", m=0, r=0),
                      dict(kind="sometimes", name="w1", sat=[], mode="mod", m=rng.choice([1501, 1777, 2999]), r=rng.randint(0, 1400)),
                      dict(kind="sometimes", name="w2", sat=[], mode="mod", m=n, r=(n * 3 // 4) % n)]

    # more initial states than fit into one batch of anything: a grid whose first 1300 nodes (its top rows) are all initial
    many = dict(id="F4-manyinit", family="grid", n=80 * 60, init=list(range(1, 1301)), succ=[], inb=[], params=[80, 60], poison=0, rep=[],
                props=[dict(kind="always", name="keep", sat=[], mode="all", m=0, r=0),
                       dict(kind="sometimes", name="w1", sat=[], mode="mod", m=1499, r=rng.randint(1300, 1450)),
                       dict(kind="sometimes", name="w2", sat=[], mode="mod", m=4800, r=4700)])
    big.append(many)

    def bcfgs(i, g):
        return [gg.base_cfg("bfs", 1, light=True, watchdog_ms=60000)]
    fam_market.checker_runs(res, "C13", big, bcfgs, ["bfs_depth", "shortest", "complete"], wd, "c13big")
    shutil.rmtree(wd, ignore_errors=True)


def c10(res):
    """C10: (a) plans / reindex / rewrite, (b) representative() of real actor-system states, (c) real DFS and simulation
    with symmetry on symmetric process-vector models."""
    import fam_algebra, fam_actor
    import gen_actors as ga
    rng = random.Random(seed() * 1000 + 10)
    q = res.tier == "quick"
    wd = workdir("C10-%s" % res.tier)
    fam_algebra.mc_algebra(res, 3, 2)
    fam_algebra.c10a(res, wd)
    # (b) representative of every reachable state of table systems (ties, timers, crashes, random choices)
    systems = []
    for name, actors in ga.hand_written():
        systems += [s for s in ga.variants(name, actors, rng, full=True) if s["max_crashes"] in (0, 1)][::2]
    systems += [ga.random_system(rng, "R%d" % i) for i in range(40 if q else 800)]
    # identical actors give ties in the sort
    for i in range(20 if q else 300):
        s = ga.random_system(rng, "T%d" % i)
        s["actors"] = [copy_actor(s["actors"][0]) for _ in s["actors"]]
        systems.append(s)
    # the same kind of systems with Id-carrying local states, message payloads and random values (renamed consistently)
    for i in range(30 if q else 500):
        s_ = ga.random_system(rng, "I%d" % i)
        if i % 3 == 0:
            s_["actors"] = [copy_actor(s_["actors"][0]) for _ in s_["actors"]]
        s_["wrap"] = "ids"
        systems.append(s_)
    fam_actor.run_family(res, "C10b", systems, ["representative"], [], real_counts=False)
    # (c) symmetric graphs: DFS with symmetry vs the full graph
    graphs = [gg.symmetric_graph(rng, "F5-%d" % i) for i in range(250 if q else 3000)]

    def cfgs(i, g):
        c = [gg.base_cfg("dfs", t, symmetry=True) for t in ((1, 2) if q else (1, 2, 4))]
        c.append(gg.base_cfg("dfs", 1))
        c.append(gg.base_cfg("sim", 1, symmetry=True, target_states=40, seed=rng.randint(0, 2 ** 32)))
        return c
    run_family(res, "C10", ["sym_cover", "verdicts", "witness", "paths", "subset", "no_panic"], graphs, cfgs)
    if not q:
        example_2pc(res, sizes=(), sym_sizes=(3, 5))
    # design level: the search algorithm with symmetry reduction, all interleavings, on small symmetric graphs
    small_sym = [g for g in (gg.symmetric_graph(rng, "S-%d" % i, eventually=(i % 2 == 0)) for i in range(60 if q else 300)) if g["n"] <= 9][: (24 if q else 100)]
    checker_design_sym(res, small_sym, q)
    # the shipped symmetric example (canonical representative = sorted thread states): exactly one state per orbit
    example_increment_lock(res, ns=((3, 4) if q else (3, 4, 5, 6)))
    res.rule = ("(a) from_values_to_sort / reindex / rewrite on all vectors (with ties) and 13 container kinds under all plans; "
                "(b) representative() of every reachable state of table actor systems = Permute(stable sort plan); (c) real "
                "spawn_dfs().symmetry_fn and simulation on symmetric process-vector models (2-3 identical processes, guards, "
                "symmetric properties): verdicts equal the unreduced semantics, every orbit has an evaluated member, no more "
                "states than the unreduced check, paths are real executions")
    shutil.rmtree(wd, ignore_errors=True)


def copy_actor(a):
    import copy
    return copy.deepcopy(a)


def c19(res):
    """C19: Explorer web service, Path API, on-demand checker vs specs/Explorer.tla."""
    rng = random.Random(seed() * 1000 + 19)
    q = res.tier == "quick"
    wd = workdir("C19-%s" % res.tier)
    graphs = [force_sentinel(g) for g in gg.f1_corpus(rng, 30 if q else 300)]
    graphs += [force_sentinel(gg.random_graph(rng, "F2-%d" % i, 3, 8)) for i in range(50 if q else 700)]
    graphs += [force_sentinel(gg.random_forest(rng, "F3-%d" % i, 4, 9)) for i in range(15 if q else 150)]
    # some graphs without the sentinel so that "all properties discovered" endings occur in the status view
    graphs += [gg.random_graph(rng, "F2n-%d" % i, 3, 8, sentinel=False) for i in range(15 if q else 150)]
    for gi_, g in enumerate(graphs):
        for p in g["props"]:
            # exactness of eventually verdicts is not part of C19 (their reported paths must still be genuine witnesses):
            # two thirds of the graphs get always / sometimes properties only
            if p["kind"] == "eventually" and gi_ % 3 != 0 and not g["id"].startswith("F3-"):
                p["kind"] = rng.choice(["always", "sometimes"])
    items = []
    nweb = 0
    for i, g in enumerate(graphs):
        reqs = []
        has_sentinel = any(p["name"] == "keep" for p in g["props"])
        if has_sentinel:
            for _ in range(2):
                # a request sequence walking the graph: mostly pending states, sometimes arbitrary ones
                ev, seq = set(), []
                for _ in range(rng.randint(1, 5)):
                    pend = set(s for s in g["init"] if g["inb"][s - 1])
                    for e in ev:
                        pend |= set(t for t in g["succ"][e - 1] if t and g["inb"][t - 1])
                    pend -= ev
                    if pend and rng.random() < 0.8:
                        r = rng.choice(sorted(pend))
                        ev.add(r)
                    else:
                        r = rng.randint(1, g["n"])
                        if r in pend:
                            ev.add(r)
                    seq.append(r)
                reqs.append(seq)
        web = (i % 2 == 0) or not q
        nweb += web
        items.append(dict(g=g, gi=i + 1, depth=3, seed=rng.randint(1, 2 ** 40), requests=reqs, web=web))
    gp = os.path.join(wd, "graphs.ndjson")
    ip = os.path.join(wd, "items.ndjson")
    rp = os.path.join(wd, "recs.ndjson")
    op = os.path.join(wd, "out.json")
    write_ndjson(gp, graphs)
    write_ndjson(ip, items)
    run_vh(["explorer", "--in", ip, "--out", rp], timeout=3000)
    recs = read_ndjson(rp)
    r = run_tlc("JudgeExplorer.tla", "cfg/empty.cfg", env=dict(GRAPHS=gp, RECS=rp, OUT=op), timeout=3000, heap="8g", name="jexplorer")
    if not r["ok"]:
        raise ToolError("explorer judge failed: " + r["out"][-3000:])
    o = json.load(open(op))
    nq = 0
    for rec, j in zip(recs, o["judged"]):
        nq += j["n_queries"] + j["n_paths"] + j["n_od"]
        for f in j["failed"]:
            g = graphs[rec["gi"] - 1]
            payload = dict(check=f, graph={k: g[k] for k in ("n", "init", "succ", "inb", "props")})
            if f.startswith("ondemand"):
                payload["ondemand"] = rec["ondemand"]
            elif f == "path_api":
                payload["paths"] = rec["paths"][:40]
            else:
                payload["web"] = {k: rec["web"][k] for k in ("status0", "status1", "init_view", "raw")}
                payload["queries"] = rec["web"]["queries"][:30]
            res.violation("%s" % f, payload)
    mc_graph(res, wd, graphs)
    ondemand_replay(res, rng, q, wd)
    # run_to_completion on graphs whose frontier exceeds one block (1500 pending states in one worker's queue) and on
    # deep / wide arithmetic graphs: finishes like BFS (visited set, counts, verdicts)
    import fam_market
    bw = workdir("C19big-%s" % res.tier)
    big = [dict(id="F4-bush-%d" % n_, family="chainbush", n=n_, init=[1], succ=[], inb=[], params=[k_], poison=0, rep=[], props=[])
           for (n_, k_) in [(4000, 1), (5200, 30)]]
    big += [g for g in fam_market.f4_graphs(rng, q) if g["family"] in ("tree", "grid")][: (2 if q else 4)]
    for g in big:
        g["props"] = fam_market.big_props(rng)
    fam_market.checker_runs(res, "C19", big, lambda i, g: [gg.base_cfg("ondemand", t, light=True, watchdog_ms=60000) for t in ((1, 2) if q else (1, 2, 4))],
                            ["joined", "edges", "subset", "once", "complete", "verdicts"], bw, "c19big")
    if not q:
        # wider frontiers without the recording visitor (it re-executes the model along every path: quadratic in the
        # fan-out); the model counts the evaluations itself
        wide = [dict(id="F4-widebush-%d" % n_, family="chainbush", n=n_, init=[1], succ=[], inb=[], params=[k_], poison=0, rep=[],
                     props=fam_market.big_props(rng)) for (n_, k_) in [(20000, 1), (30000, 300)]]
        fam_market.checker_runs(res, "C19", wide, lambda i, g: [gg.base_cfg("ondemand", t, no_visitor=True, watchdog_ms=60000) for t in (1, 2, 4)],
                                ["joined", "evals_once"], bw, "c19wide")
    shutil.rmtree(bw, ignore_errors=True)
    res.traces += len(recs)
    res.evaluations += nq
    res.nontrivial += nq
    res.samples.append(dict(graph={k: graphs[0][k] for k in ("n", "init", "succ")}, first_queries=recs[0]["web"].get("queries", [])[:3],
                            status_after_run_to_completion=recs[0]["web"].get("status1")))
    res.notes.append("%d graphs, %d served by a real Explorer instance on loopback; %d HTTP queries / path round trips / on-demand request sequences judged" % (len(graphs), nweb, nq))
    res.rule = ("real serve() on a loopback port per graph: GET /.states for every execution up to depth 3 (all initial states, "
                "defined transitions, ignored actions) and for random non-executions, unknown / zero / garbage fingerprints, "
                "trailing slash; /.status before and after POST /.runtocompletion (counts, per-property witness paths decoded "
                "from fingerprints); Path::from_actions / encode / into_* on all action lists up to depth 3 incl. disabled and "
                "ignored actions; spawn_on_demand driven by request sequences (each pending requested state is evaluated, "
                "nothing else is, run_to_completion finishes like BFS)")
    shutil.rmtree(wd, ignore_errors=True)


def checker_design(res, graphs_small, q):
    """Checker.tla: all interleavings of the faithful search algorithm on small graphs (design level), the as-found variant as a
    failing mutant, and SPEC-DRIFT detection: a single-threaded real run must reproduce the spec's unique behaviour."""
    wd = workdir("checker-%s-%s" % (res.pid, res.tier))
    gp = os.path.join(wd, "g.ndjson")
    write_ndjson(gp, graphs_small)
    for cfg in (["Checker_bfs_2w", "Checker_dfs_2w"] if q else ["Checker_bfs_1w", "Checker_dfs_1w", "Checker_bfs_2w", "Checker_dfs_2w",
                                                                "Checker_bfs_3w", "Checker_dfs_3w"]):
        r = run_tlc("Checker.tla", "cfg/%s.cfg" % cfg, env=dict(GRAPHS=gp), workers=10, timeout=3000, heap="10g", name=cfg)
        res.add_tlc(r, cfg)
        if not r["ok"]:
            raise ToolError("%s: %s violated on the algorithm SPEC\n%s" % (cfg, r["violated"], r["out"][-3000:]))
    r = run_tlc("Checker.tla", "cfg/Checker_bfs_1w_asis.cfg", env=dict(GRAPHS=gp), workers=4, timeout=1200, name="checker-asis")
    if r["violated"] != "WitnessAlways":
        res.notes.append("self-check: as-found Checker variant did not violate WitnessAlways on this corpus (%s)" % r["violated"])
    # drift: predicted single-threaded behaviour vs the real run
    preds = []
    for st in ("bfs", "dfs"):
        r = run_tlc("Checker.tla", "cfg/Checker_%s_predict.cfg" % st, env=dict(GRAPHS=gp), workers=1, timeout=1200, name="predict-" + st)
        res.add_tlc(r, "Checker_%s_predict" % st)
        for line in r["out"].splitlines():
            if line.startswith('<<"RUN", "') and line.endswith('">>'):
                preds.append(json.loads(line[len('<<"RUN", "'):-3].replace('\\"', '"').replace("\\\\", "\\")))
    items = [dict(g=g, gi=i + 1, cfgs=[gg.base_cfg("bfs", 1), gg.base_cfg("dfs", 1)]) for i, g in enumerate(graphs_small)]
    drift_compare(res, wd, preds, items)
    shutil.rmtree(wd, ignore_errors=True)


def checker_design_sym(res, graphs_sym, q):
    """Checker.tla with Symmetry = TRUE (DFS, the set of generated states holds representatives) on small symmetric
    process-vector graphs: all interleavings of 1-2 workers judged by CheckerObs (sym_cover, verdicts, witness, paths);
    the historical bug (continuing with the representative) as a failing spec mutant; drift of the real symmetric DFS."""
    wd = workdir("checkersym-%s-%s" % (res.pid, res.tier))
    gp = os.path.join(wd, "g.ndjson")
    write_ndjson(gp, graphs_sym)
    for cfg in (["Checker_dfs_1w_sym", "Checker_dfs_2w_sym"]):
        r = run_tlc("Checker.tla", "cfg/%s.cfg" % cfg, env=dict(GRAPHS=gp), workers=10, timeout=3000, heap="10g", name=cfg)
        res.add_tlc(r, cfg)
        if not r["ok"]:
            raise ToolError("%s: %s violated on the algorithm SPEC\n%s" % (cfg, r["violated"], r["out"][-3000:]))
    try:
        r = run_tlc("Checker.tla", "cfg/Checker_dfs_1w_sym_enqrep.cfg", env=dict(GRAPHS=gp), workers=4, timeout=1200, name="checker-enqrep")
    except ToolError:
        # the mutant's paths contain steps the graph does not have: evaluating their action lists can fail outright
        r = dict(violated="WitnessAlways")
    if r["violated"] != "WitnessAlways":
        res.notes.append("self-check: the enqueue-the-representative spec variant did not violate WitnessAlways on this corpus (%s)" % r["violated"])
    else:
        res.notes.append("self-check: the enqueue-the-representative spec variant (historical bug) violates WitnessAlways as expected")
    preds = []
    r = run_tlc("Checker.tla", "cfg/Checker_dfs_predict_sym.cfg", env=dict(GRAPHS=gp), workers=1, timeout=1200, name="predict-dfs-sym")
    res.add_tlc(r, "Checker_dfs_predict_sym")
    for line in r["out"].splitlines():
        if line.startswith('<<"RUN", "') and line.endswith('">>'):
            preds.append(json.loads(line[len('<<"RUN", "'):-3].replace('\\"', '"').replace("\\\\", "\\")))
    items = [dict(g=g, gi=i + 1, cfgs=[gg.base_cfg("dfs", 1, symmetry=True)]) for i, g in enumerate(graphs_sym)]
    drift_compare(res, wd, preds, items)
    shutil.rmtree(wd, ignore_errors=True)


def drift_compare(res, wd, preds, items):
    runs = execute(wd, items, par=4)
    pp, rp, op = os.path.join(wd, "pred.ndjson"), os.path.join(wd, "runs.ndjson"), os.path.join(wd, "drift.json")
    write_ndjson(pp, preds)
    write_ndjson(rp, runs)
    r = run_tlc("JudgeDrift.tla", "cfg/empty.cfg", env=dict(PRED=pp, RUNS=rp, OUT=op), timeout=1200, name="jdrift")
    if r["ok"]:
        o = json.load(open(op))
        if o["drift"]:
            log("SPEC-DRIFT: %d of %d single-threaded runs differ from what Checker.tla predicts step by step (visit order / kept witness / "
                "counters); property-level judges decide whether that is a violation" % (len(o["drift"]), o["n"]))
        res.notes.append("Checker.tla predicted %d single-threaded behaviours; %d real runs compared, %d drift" % (o["compared"], o["n"], len(o["drift"])))
        res.extra["spec_drift_runs"] = res.extra.get("spec_drift_runs", 0) + len(o["drift"])


def run_example(example, args, run_timeout=900):
    """Builds a shipped example from /repo's working tree and runs it. Returns (output, m) where m is the match of its
    "Done. states=.., unique=.." line or None: an example that panics, hangs or reports nothing is DATA for the judge
    (the counts are then recorded as -1), only a failing build is a tool error."""
    import subprocess, re
    env = dict(os.environ, CARGO_NET_OFFLINE="true")
    b = subprocess.run(["cargo", "build", "--offline", "--release", "--example", example], cwd="/repo", env=env,
                       stdout=subprocess.PIPE, stderr=subprocess.STDOUT, text=True, timeout=3000)
    exe = os.path.join("/repo/target/release/examples", example)
    if b.returncode != 0 or not os.path.exists(exe):
        raise ToolError("examples/%s does not build:\n%s" % (example, b.stdout[-2000:]))
    try:
        p = subprocess.run([exe] + [str(a) for a in args], cwd="/repo", env=env, stdout=subprocess.PIPE, stderr=subprocess.STDOUT,
                           text=True, timeout=run_timeout)
        out = p.stdout
    except subprocess.TimeoutExpired as e:
        out = (e.stdout.decode() if isinstance(e.stdout, bytes) else (e.stdout or "")) + "\n[the example did not finish within %d s]" % run_timeout
    return out, re.search(r"Done\. states=(\d+), unique=(\d+)", out)


def counts_of(m):
    return (int(m.group(1)), int(m.group(2))) if m else (-1, -1)


def example_2pc(res, sizes=(3,), sym_sizes=()):
    """Third-party oracle: Lamport's TwoPhase spec (TLC) vs the shipped examples/2pc.rs run by the real checkers."""
    import subprocess, re
    wd = workdir("ex2pc-%s" % res.pid)
    recs = []
    for n, sym in [(k, False) for k in sizes] + [(k, True) for k in sym_sizes]:
        r = run_tlc("MCTwoPhase.tla", "cfg/TwoPhase_%d.cfg" % n, workers=8, timeout=1800, name="twophase-%d" % n)
        res.add_tlc(r, "TwoPhase[%d RMs]" % n)
        if not r["ok"]:
            raise ToolError("TwoPhase.tla: %s violated" % r["violated"])
        distinct = r["distinct"]
        orbits = 0
        if sym:
            r2 = run_tlc("MCTwoPhase.tla", "cfg/TwoPhase_%d_sym.cfg" % n, workers=1, timeout=1800, name="twophase-sym-%d" % n)
            res.add_tlc(r2, "TwoPhase[%d RMs, SYMMETRY]" % n)
            orbits = r2["distinct"]
        out_, m = run_example("2pc", ["check-sym" if sym else "check", n], run_timeout=1800)
        recs.append(dict(n=n, symmetry=sym, states=counts_of(m)[0], unique=counts_of(m)[1], tlc_distinct=distinct, tlc_orbits=orbits,
                         found_commit='Discovered "commit agreement" example' in out_,
                         found_abort='Discovered "abort agreement" example' in out_,
                         found_inconsistent='Discovered "consistent"' in out_, output_tail=out_[-600:]))
    rp, op = os.path.join(wd, "ex.ndjson"), os.path.join(wd, "ex.json")
    write_ndjson(rp, recs)
    r = run_tlc("JudgeExamples.tla", "cfg/empty.cfg", env=dict(RECS=rp, OUT=op), timeout=300, name="jex")
    o = json.load(open(op))
    for i in o["bad"]:
        res.violation("example_2pc/%s" % ("sym" if recs[i - 1]["symmetry"] else "plain"), dict(check="example_2pc", record=recs[i - 1]))
    res.traces += len(recs)
    res.notes.append("examples/2pc.rs vs Lamport's TwoPhase.tla: " + "; ".join(
        "%d RMs%s: stateright unique=%d states=%d, TLC distinct=%d%s" % (x["n"], " sym" if x["symmetry"] else "", x["unique"], x["states"], x["tlc_distinct"],
                                                                       (", TLC orbits=%d" % x["tlc_orbits"]) if x["symmetry"] else "") for x in recs))
    shutil.rmtree(wd, ignore_errors=True)


def checker_controls(res, rng, q):
    """Checker.tla with run controls (depth limit, finish condition, target): every interleaving of the faithful algorithm
    passes the same CheckerObs checks (stop_reason, target, target_real, depth_max, depth_min) that real runs must pass."""
    wd = workdir("checker-ctl-%s" % res.tier)
    small = gg.f1_corpus(rng, 20) + [gg.random_graph(rng, "cc-%d" % i, 3, 4, nprops=rng.randint(1, 2)) for i in range(15 if q else 50)] \
        + [gg.random_forest(rng, "ccf-%d" % i, 3, 5) for i in range(6 if q else 20)]
    gp = os.path.join(wd, "g.ndjson")
    write_ndjson(gp, small)
    for cfg in ["Checker_bfs_1w_depth", "Checker_dfs_2w_any", "Checker_bfs_2w_target", "Checker_dfs_2w_depth"]:
        r = run_tlc("Checker.tla", "cfg/%s.cfg" % cfg, env=dict(GRAPHS=gp), workers=10, timeout=3000, heap="10g", name=cfg)
        res.add_tlc(r, cfg)
        if not r["ok"]:
            raise ToolError("%s: %s violated on the algorithm SPEC\n%s" % (cfg, r["violated"], r["out"][-3000:]))
    shutil.rmtree(wd, ignore_errors=True)


def sim_design(res, rng, q):
    """Simulation.tla: every sequence of chooser decisions over two consecutive traces on small graphs; the two as-found
    variants (boundary exit ends the trace; discoveries overwritten) must violate WitnessAlways."""
    wd = workdir("simdesign-%s-%s" % (res.pid, res.tier))
    small = gg.f1_corpus(rng, 30) + [gg.random_graph(rng, "sm-%d" % i, 3, 5, nprops=rng.randint(1, 3)) for i in range(30 if q else 150)] \
        + [gg.random_forest(rng, "smf-%d" % i, 3, 6) for i in range(10 if q else 40)]
    gp = os.path.join(wd, "g.ndjson")
    write_ndjson(gp, small)
    for cfg in ("Simulation", "Simulation_depth"):
        r = run_tlc("Simulation.tla", "cfg/%s.cfg" % cfg, env=dict(GRAPHS=gp), workers=8, timeout=3000, heap="10g", name=cfg)
        res.add_tlc(r, cfg)
        if not r["ok"]:
            raise ToolError("%s: %s violated on the simulation SPEC\n%s" % (cfg, r["violated"], r["out"][-3000:]))
    for cfg in ("Simulation_asis_boundary", "Simulation_asis_overwrite"):
        r = run_tlc("Simulation.tla", "cfg/%s.cfg" % cfg, env=dict(GRAPHS=gp), workers=4, timeout=1200, name=cfg)
        if r["violated"] != "WitnessAlways":
            res.notes.append("self-check: %s did not violate WitnessAlways on this corpus (%s)" % (cfg, r["violated"]))
        else:
            res.notes.append("self-check: %s violates WitnessAlways as expected" % cfg)
    shutil.rmtree(wd, ignore_errors=True)


def ondemand_replay(res, rng, q, wd):
    """spec -> implementation: every request sequence TLC enumerates from OnDemand.tla is replayed into the real
    single-worker spawn_on_demand(); the evaluated set after every request must be the spec's."""
    small = [force_sentinel(g) for g in gg.f1_corpus(rng, 10)] + [force_sentinel(gg.random_graph(rng, "od-%d" % i, 3, 4)) for i in range(6 if q else 25)]
    gp = os.path.join(wd, "od-graphs.ndjson")
    write_ndjson(gp, small)
    r = run_tlc("OnDemand.tla", "cfg/OnDemand.cfg", env=dict(GRAPHS=gp), workers=1, timeout=1800, name="ondemand-spec")
    res.add_tlc(r, "OnDemand")
    if not r["ok"]:
        raise ToolError("OnDemand.tla: %s violated\n%s" % (r["violated"], r["out"][-2000:]))
    behaviours = []
    for line in r["out"].splitlines():
        if line.startswith('<<"OD", "') and line.endswith('">>'):
            behaviours.append(json.loads(line[len('<<"OD", "'):-3].replace('\\"', '"').replace("\\\\", "\\")))
    by_g = {}
    for b in behaviours:
        by_g.setdefault(b["gi"], []).append(b)
    def grew(b):
        out, prev = [], 0
        for h_ in b["hist"]:
            out.append(len(h_) > prev)
            prev = len(h_)
        return out
    items = [dict(g=small[gi - 1], gi=gi, depth=0, seed=1, web=False, od_threads=1, requests=[b["reqs"] for b in bs],
                  patience=[grew(b) for b in bs]) for gi, bs in sorted(by_g.items())]
    ip, rp, jp, op = [os.path.join(wd, x) for x in ("od-items.ndjson", "od-recs.ndjson", "od-judge.ndjson", "od-out.json")]
    write_ndjson(ip, items)
    run_vh(["explorer", "--in", ip, "--out", rp], timeout=3000)
    recs = read_ndjson(rp)
    flat = []
    for rec in recs:
        bs = by_g[rec["gi"]]
        for b, od in zip(bs, rec["ondemand"]):
            flat.append(dict(gi=rec["gi"], reqs=b["reqs"], hist=b["hist"], steps=od["steps"], visited=od["visited"], is_done=od["is_done"]))
    write_ndjson(jp, flat)
    r = run_tlc("JudgeOnDemand.tla", "cfg/empty.cfg", env=dict(GRAPHS=gp, RECS=jp, OUT=op), timeout=1800, name="jondemand", heap="6g")
    if not r["ok"]:
        raise ToolError("on-demand judge failed: " + r["out"][-2000:])
    o = json.load(open(op))
    for i in o["bad"]:
        x = flat[i - 1]
        res.violation("ondemand_replay", dict(check="ondemand_replay", graph={k: small[x["gi"] - 1][k] for k in ("n", "init", "succ", "inb")}, behaviour=x))
    res.traces += len(flat)
    res.notes.append("OnDemand.tla: %d request sequences enumerated by TLC replayed into the real on-demand checker" % len(flat))
    # design level: the worker loop of on_demand.rs (channels, pending / targetted queues, blocks, market visits) for 1-2
    # workers, every request sequence and every interleaving: safety + liveness; for one worker the quiescent outcome is
    # exactly OnDemand.tla's, for two it is a superset (strict equality must FAIL: stale requests queued at an idle worker)
    gp2 = os.path.join(wd, "odw-graphs.ndjson")
    write_ndjson(gp2, small[: (7 if q else 16)])
    for cfg in ("OnDemandWorkers_1w", "OnDemandWorkers_2w"):
        r = run_tlc("OnDemandWorkers.tla", "cfg/%s.cfg" % cfg, env=dict(GRAPHS=gp2), workers=8, timeout=3000, heap="10g", name=cfg)
        res.add_tlc(r, cfg)
        if not r["ok"]:
            raise ToolError("%s: %s violated on the SPEC of the on-demand worker loop\n%s" % (cfg, r["violated"], r["out"][-3000:]))
    r = run_tlc("OnDemandWorkers.tla", "cfg/OnDemandWorkers_2w_strict.cfg", env=dict(GRAPHS=gp2), workers=8, timeout=3000, heap="10g", name="odw-strict")
    res.notes.append("self-check: with two workers the outcome of a request sequence is %s" % (
        "not always the sequential one (StrictlySequential violated, as expected: a request queued at an idle worker is honoured later)"
        if r["violated"] == "StrictlySequential" else "the sequential one on this corpus (%s)" % r["violated"]))


def example_single_copy(res, clients=(2,)):
    """Third-party style oracle: SingleCopy.tla (register harness + tester state + network as a spec) vs the shipped
    examples/single-copy-register.rs run by the real checker: state counts and the linearizability verdict."""
    import subprocess, re
    wd = workdir("exsc-%s" % res.pid)
    recs = []
    for c in clients:
        r = run_tlc("SingleCopy.tla", "cfg/SingleCopy_1_%d.cfg" % c, workers=8, timeout=3000, heap="10g", name="singlecopy-%d" % c)
        res.add_tlc(r, "SingleCopy[1 server, %d clients]" % c)
        if not r["ok"]:
            raise ToolError("SingleCopy.tla: %s violated on the SPEC" % r["violated"])
        out_, m = run_example("single-copy-register", ["check", c, "unordered_nonduplicating"], run_timeout=1800)
        recs.append(dict(n=c, symmetry=False, states=counts_of(m)[0], unique=counts_of(m)[1], tlc_distinct=r["distinct"], tlc_orbits=0,
                         found_commit=True, found_abort=True, found_inconsistent='Discovered "linearizable"' in out_, output_tail=out_[-600:]))
    r2 = run_tlc("SingleCopy.tla", "cfg/SingleCopy_2_2.cfg", workers=4, timeout=1200, name="singlecopy-2-2")
    if r2["violated"] != "Linearizable":
        raise ToolError("SingleCopy.tla with two servers should violate Linearizable, got %s" % r2["violated"])
    rp, op = os.path.join(wd, "ex.ndjson"), os.path.join(wd, "ex.json")
    write_ndjson(rp, recs)
    run_tlc("JudgeExamples.tla", "cfg/empty.cfg", env=dict(RECS=rp, OUT=op), timeout=300, name="jexsc")
    o = json.load(open(op))
    for i in o["bad"]:
        res.violation("example_single_copy", dict(check="example_single_copy", record=recs[i - 1]))
    res.traces += len(recs)
    res.notes.append("examples/single-copy-register.rs vs SingleCopy.tla: " + "; ".join(
        "%d clients: stateright unique=%d states=%d, TLC distinct=%d" % (x["n"], x["unique"], x["states"], x["tlc_distinct"]) for x in recs)
        + "; with two servers TLC finds the linearizability violation the example documents")
    shutil.rmtree(wd, ignore_errors=True)


def example_abd(res):
    """Abd.tla (the ABD quorum register of examples/linearizable-register.rs: servers, register clients, the recorded
    linearizability-tester state and the non-duplicating network as a spec) vs the real example: the CLI run (3 servers,
    1 client) must report TLC's distinct-state count, and the example's own tests (2 servers, 2 clients, BFS and DFS,
    which assert 544 states and linearizability) must pass while TLC finds 544 states on the same configuration."""
    import subprocess, re
    wd = workdir("exabd-%s" % res.pid)
    env = dict(os.environ, CARGO_NET_OFFLINE="true")
    r31 = run_tlc("Abd.tla", "cfg/Abd_3_1.cfg", workers=8, timeout=3000, heap="10g", name="abd-3-1")
    res.add_tlc(r31, "Abd[3 servers, 1 client]")
    r22 = run_tlc("Abd.tla", "cfg/Abd_2_2.cfg", workers=8, timeout=3000, heap="10g", name="abd-2-2")
    res.add_tlc(r22, "Abd[2 servers, 2 clients]")
    for r in (r31, r22):
        if not r["ok"]:
            raise ToolError("Abd.tla: %s violated on the SPEC" % r["violated"])
    out_, m = run_example("linearizable-register", ["check", 1, "unordered_nonduplicating"], run_timeout=1800)
    recs = [dict(n=1, symmetry=False, states=counts_of(m)[0], unique=counts_of(m)[1], tlc_distinct=r31["distinct"], tlc_orbits=0,
                 found_commit=True, found_abort='Discovered "value chosen"' in out_, found_inconsistent='Discovered "linearizable"' in out_,
                 output_tail=out_[-600:])]
    bt = subprocess.run(["cargo", "test", "--offline", "--release", "--example", "linearizable-register", "--no-run"],
                        cwd="/repo", env=env, stdout=subprocess.PIPE, stderr=subprocess.STDOUT, text=True, timeout=3000)
    if bt.returncode != 0:
        raise ToolError("the tests of examples/linearizable-register do not build:\n" + bt.stdout[-1500:])
    try:
        t = subprocess.run(["cargo", "test", "--offline", "--release", "--example", "linearizable-register"],
                           cwd="/repo", env=env, stdout=subprocess.PIPE, stderr=subprocess.STDOUT, text=True, timeout=1800)
        tout = t.stdout
    except subprocess.TimeoutExpired as e:
        tout = "[the example's tests did not finish]"
    class _T:
        stdout = tout
    t = _T()
    mt = re.search(r"test result: (\w+)\. (\d+) passed; (\d+) failed", t.stdout)
    # the example's own tests assert unique_state_count() == 544 for 2 servers / 2 clients (BFS and DFS)
    own_ok = bool(mt) and mt.group(1) == "ok" and int(mt.group(2)) >= 1 and "can_model_linearizable_register ... ok" in t.stdout
    recs.append(dict(n=2, symmetry=False, states=544 if own_ok else 0, unique=544 if own_ok else 0, tlc_distinct=r22["distinct"], tlc_orbits=0,
                     found_commit=True, found_abort=True, found_inconsistent=not own_ok))
    rp, op = os.path.join(wd, "ex.ndjson"), os.path.join(wd, "ex.json")
    write_ndjson(rp, recs)
    run_tlc("JudgeExamples.tla", "cfg/empty.cfg", env=dict(RECS=rp, OUT=op), timeout=300, name="jexabd")
    o = json.load(open(op))
    for i in o["bad"]:
        res.violation("example_abd", dict(check="example_abd", record=recs[i - 1], test_output=t.stdout[-800:]))
    res.traces += len(recs)
    res.notes.append("examples/linearizable-register.rs vs Abd.tla: 3 servers / 1 client: stateright unique=%d states=%d, TLC distinct=%d generated=%d; "
                     "2 servers / 2 clients: the example's own tests (assert 544, BFS and DFS) %s, TLC distinct=%d" % (
                         recs[0]["unique"], recs[0]["states"], r31["distinct"], r31["generated"], "pass" if own_ok else "FAIL", r22["distinct"]))
    shutil.rmtree(wd, ignore_errors=True)


def example_paxos(res, clients=(1, 2, 3)):
    """Paxos.tla (single-decree Paxos of examples/paxos.rs with its register clients, recorded tester state and network as
    a spec; invariants Linearizable, Agreement, Validity) vs the real example run by the real checker: unique and generated
    state counts must be exactly TLC's for 3 servers and 1-3 clients (265/482, 16 668/32 971, 1 194 428/2 420 477)."""
    import subprocess, re
    wd = workdir("expaxos-%s" % res.pid)
    env = dict(os.environ, CARGO_NET_OFFLINE="true")
    recs = []
    for c in clients:
        r = run_tlc("Paxos.tla", "cfg/Paxos_3_%d.cfg" % c, workers=8, timeout=3400, heap="12g", name="paxos-3-%d" % c)
        res.add_tlc(r, "Paxos[3 servers, %d clients]" % c)
        if not r["ok"]:
            raise ToolError("Paxos.tla: %s violated on the SPEC" % r["violated"])
        out_, m = run_example("paxos", ["check", c, "unordered_nonduplicating"], run_timeout=900 if c < 3 else 1800)
        recs.append(dict(n=c, symmetry=False, states=counts_of(m)[0], unique=counts_of(m)[1], tlc_distinct=r["distinct"], tlc_generated=r["generated"],
                         tlc_orbits=0, found_commit=True, found_abort='Discovered "value chosen"' in out_,
                         found_inconsistent='Discovered "linearizable"' in out_, output_tail=out_[-600:]))
    rp, op = os.path.join(wd, "ex.ndjson"), os.path.join(wd, "ex.json")
    write_ndjson(rp, recs)
    run_tlc("JudgeExamples.tla", "cfg/empty.cfg", env=dict(RECS=rp, OUT=op), timeout=300, name="jexpaxos")
    o = json.load(open(op))
    for i in o["bad"]:
        res.violation("example_paxos", dict(check="example_paxos", record=recs[i - 1]))
    res.traces += len(recs)
    res.notes.append("examples/paxos.rs vs Paxos.tla (3 servers): " + "; ".join(
        "%d clients: stateright unique=%d states=%d, TLC distinct=%d generated=%d" % (x["n"], x["unique"], x["states"], x["tlc_distinct"], x["tlc_generated"]) for x in recs))
    shutil.rmtree(wd, ignore_errors=True)


def example_increment_lock(res, ns=(3, 4)):
    """IncrementLock.tla vs examples/increment_lock.rs run by the real DFS checker without and with `.symmetry()`: unique and
    generated counts = TLC's distinct/generated states, resp. TLC's counts under the VIEW that identifies the states of an
    orbit (the example's representative sorts the thread states, i.e. is canonical: exactly one state per orbit)."""
    import subprocess, re
    wd = workdir("exinc-%s" % res.pid)
    env = dict(os.environ, CARGO_NET_OFFLINE="true")
    recs = []
    for n in ns:
        a = run_tlc("IncrementLock.tla", "cfg/IncrementLock_%d.cfg" % n, workers=4, timeout=1200, name="inclock-%d" % n)
        b = run_tlc("IncrementLock.tla", "cfg/IncrementLock_%d_sym.cfg" % n, workers=4, timeout=1200, name="inclock-%d-sym" % n)
        res.add_tlc(a, "IncrementLock[%d]" % n)
        res.add_tlc(b, "IncrementLock[%d, orbits]" % n)
        if not (a["ok"] and b["ok"]):
            raise ToolError("IncrementLock.tla: invariant violated on the SPEC")
        for sub, sym in (("check", False), ("check-sym", True)):
            out_, m = run_example("increment_lock", [sub, n], run_timeout=600)
            recs.append(dict(n=n, symmetry=sym, canonical=True, states=counts_of(m)[0], unique=counts_of(m)[1],
                             tlc_distinct=a["distinct"], tlc_orbits=b["distinct"], tlc_generated=(b if sym else a)["generated"],
                             found_commit=True, found_abort=True, found_inconsistent="Discovered" in out_, output_tail=out_[-600:]))
    rp, op = os.path.join(wd, "ex.ndjson"), os.path.join(wd, "ex.json")
    write_ndjson(rp, recs)
    run_tlc("JudgeExamples.tla", "cfg/empty.cfg", env=dict(RECS=rp, OUT=op), timeout=300, name="jexinc")
    o = json.load(open(op))
    for i in o["bad"]:
        res.violation("example_increment_lock", dict(check="example_increment_lock", record=recs[i - 1]))
    res.traces += len(recs)
    res.notes.append("examples/increment_lock.rs vs IncrementLock.tla: " + "; ".join(
        "N=%d%s: stateright unique=%d states=%d, TLC %s=%d generated=%d" % (x["n"], " symmetric" if x["symmetry"] else "", x["unique"], x["states"],
            "orbits" if x["symmetry"] else "distinct", x["tlc_orbits"] if x["symmetry"] else x["tlc_distinct"], x["tlc_generated"]) for x in recs))
    shutil.rmtree(wd, ignore_errors=True)
