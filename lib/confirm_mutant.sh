#!/bin/bash
# usage: confirm_mutant.sh <worktree> <mutant dir (patch.diff, demo.rs)>   -> prints CONFIRMED or REJECTED: reason
WT=$1; M=$2
cd "$WT" || exit 2
git checkout -q -- . ; rm -rf tests/demo.rs
mkdir -p tests
export CARGO_NET_OFFLINE=true
# without patch: demo passes
cp "$M/demo.rs" tests/demo.rs
if ! cargo test --offline --test demo >"$M/confirm_nopatch.log" 2>&1; then echo "REJECTED: demo fails without patch"; rm -f tests/demo.rs; exit 1; fi
rm -f tests/demo.rs
# with patch: compiles, lib tests same 84 pass, demo fails
if ! git apply "$M/patch.diff"; then echo "REJECTED: patch does not apply"; exit 1; fi
cargo test --offline --lib >"$M/confirm_lib.log" 2>&1
passed=$(grep -E "^test result" "$M/confirm_lib.log" | sed -E 's/.* ([0-9]+) passed; ([0-9]+) failed.*/\1 \2/')
if [ "$passed" != "84 3" ]; then echo "REJECTED: lib tests with patch: $passed"; git checkout -q -- .; exit 1; fi
cp "$M/demo.rs" tests/demo.rs
if cargo test --offline --test demo >"$M/confirm_patch.log" 2>&1; then echo "REJECTED: demo passes with patch"; rm -f tests/demo.rs; git checkout -q -- .; exit 1; fi
if grep -q "error\[E" "$M/confirm_patch.log"; then echo "REJECTED: demo does not compile with patch"; rm -f tests/demo.rs; git checkout -q -- .; exit 1; fi
rm -f tests/demo.rs; git checkout -q -- .
echo "CONFIRMED"
