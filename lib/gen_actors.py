"""Table-actor system corpus shared by TLC (ActorSystem.tla) and the Rust harness (TableActor)."""
import random, copy


def cmd(k, dst=0, msg=0, t=0, key="", vals=None):
    return dict(k=k, dst=dst, msg=msg, t=t, key=key, vals=list(vals or []))


def send(dst, msg): return cmd("send", dst=dst, msg=msg)
def setT(t): return cmd("set", t=t)
def cancel(t): return cmd("cancel", t=t)
def choose(key, vals): return cmd("choose", key=key, vals=vals)
def remove(key): return cmd("choose", key=key, vals=[])


def entry(state, touch, nxt, cmds, src=-1, msg=0, t=0, val=0):
    return dict(state=state, src=src, msg=msg, t=t, val=val, touch=touch, next=nxt, cmds=cmds)


def actor(start_state=0, start_cmds=None, on_msg=None, on_timer=None, on_random=None):
    return dict(start=dict(state=start_state, cmds=list(start_cmds or [])), on_msg=list(on_msg or []),
                on_timer=list(on_timer or []), on_random=list(on_random or []))


def system(sid, actors, network="dup", lossy=False, max_crashes=0, init_net=None, history="none", net_len=0,
           hist_len=0, wrap="none", max_states=2000):
    return dict(id=sid, actors=actors, network=network, lossy=lossy, max_crashes=max_crashes,
                init_net=[dict(src=s, dst=d, msg=m) for (s, d, m) in (init_net or [])], history=history,
                boundary=dict(net_len=net_len, hist_len=hist_len), wrap=wrap, max_states=max_states)


def hand_written():
    """Small systems that each exercise one rule of the semantics."""
    out = []
    # ping-pong with counter up to 3
    pp0 = actor(0, [send(1, 1)], on_msg=[entry(s, True, s + 1, [send(1, 1)], msg=2) for s in range(3)])
    pp1 = actor(0, [], on_msg=[entry(s, True, s + 1, [send(0, 2)], msg=1) for s in range(3)])
    out.append(("pingpong", [pp0, pp1]))
    # timer renewal (borrowed state, re-set same timer) + a real timeout step
    tr = actor(0, [setT(1), setT(2)], on_timer=[entry(0, False, 0, [setT(1)], t=1), entry(0, True, 1, [send(1, 5)], t=2),
                                                 entry(1, True, 1, [], t=1)])
    out.append(("timer_renewal", [tr, actor(0, [], on_msg=[entry(0, True, 1, [], msg=5)])]))
    # near-renewals: borrowed state, the fired timer re-armed together with something else
    nr1 = actor(0, [setT(1)], on_timer=[entry(0, False, 0, [setT(1), setT(2)], t=1), entry(0, True, 1, [], t=2)])
    out.append(("renew_plus_other_timer", [nr1, actor(0)]))
    nr2 = actor(0, [setT(1)], on_timer=[entry(0, False, 0, [setT(1), send(1, 1)], t=1)])
    out.append(("renew_plus_send", [nr2, actor(0, [], on_msg=[entry(0, True, 1, [], msg=1)])]))
    nr3 = actor(0, [setT(1), setT(2)], on_timer=[entry(0, False, 0, [setT(2)], t=1), entry(0, False, 0, [setT(2), setT(2)], t=2)])
    out.append(("renew_other", [nr3]))
    # cancel then set in one handler; set then cancel
    cs = actor(0, [setT(1)], on_msg=[entry(0, True, 1, [cancel(1), setT(1), setT(2), cancel(2)], msg=1)],
               on_timer=[entry(1, True, 2, [], t=1)])
    out.append(("cancel_set", [cs, actor(0, [send(0, 1)])]))
    # random choices: choose, overwrite, remove
    rc = actor(0, [choose("k1", [1, 2]), choose("k2", [3])],
               on_random=[entry(0, True, 1, [choose("k1", [4, 5])], val=1), entry(0, True, 2, [remove("k2")], val=2),
                          entry(0, True, 3, [send(1, 7)], val=3), entry(1, True, 4, [], val=4), entry(1, False, 1, [], val=5)])
    out.append(("random", [rc, actor(0, [], on_msg=[entry(0, True, 1, [], msg=7)])]))
    # two identical messages and a three-message flow
    tw = actor(0, [send(1, 1), send(1, 1), send(1, 2), send(1, 3)])
    rcv = actor(0, [], on_msg=[entry(s, True, s * 4 + m, [], msg=m) for s in range(0, 40) for m in (1, 2, 3)])
    out.append(("flows", [tw, rcv]))
    # no-op deliveries: borrowed + no commands, touched with same value, message to a non-existent actor
    no = actor(0, [send(1, 1), send(1, 2), send(1, 3), send(5, 9)])
    nr = actor(0, [], on_msg=[entry(0, False, 0, [], msg=1), entry(0, True, 0, [], msg=2), entry(0, True, 1, [], msg=3)])
    out.append(("noop", [no, nr]))
    # crash-sensitive: a and b exchange, c has a timer and a choice
    ca = actor(0, [send(1, 1)], on_msg=[entry(0, True, 1, [send(2, 3)], msg=2)])
    cb = actor(0, [], on_msg=[entry(0, True, 1, [send(0, 2)], msg=1)])
    cc = actor(0, [setT(1), choose("k", [1, 2])], on_timer=[entry(0, True, 1, [send(0, 4)], t=1)],
               on_msg=[entry(0, True, 2, [], msg=3), entry(1, True, 3, [], msg=3)],
               on_random=[entry(0, True, 5, [], val=1), entry(0, True, 6, [], val=2), entry(1, True, 7, [], val=1),
                          entry(1, True, 8, [], val=2)])
    out.append(("crashy", [ca, cb, cc]))
    # self-sends and replies depending on source
    ss = actor(0, [send(0, 1)], on_msg=[entry(0, True, 1, [send(1, 2), send(0, 3)], src=0, msg=1),
                                        entry(1, True, 2, [], src=0, msg=3), entry(1, True, 3, [], src=1, msg=4),
                                        entry(2, True, 4, [], src=1, msg=4)])
    so = actor(0, [], on_msg=[entry(0, True, 1, [send(0, 4)], msg=2)])
    out.append(("selfsend", [ss, so]))
    # idle actors (only crashes can happen)
    out.append(("idle", [actor(0), actor(1)]))
    return out


def variants(name, actors, rng, full=False):
    """network kinds x lossy x crash budgets x history modes"""
    out = []
    nets = ["ordered", "dup", "nondup"]
    for net in nets:
        for lossy in (False, True):
            for mc in ((0, 1, 2) if full else (0, 1)):
                hist = rng.choice(["none", "log", "count", "in_only", "out_only"])
                init_net = []
                if rng.random() < 0.3:
                    init_net = [(0, len(actors) - 1, 1)]
                if rng.random() < 0.15:
                    init_net.append((0, 7, 1))          # addressed to a non-existent actor
                if init_net and rng.random() < 0.3:
                    init_net.append(init_net[0])        # the same envelope twice in the initial network
                out.append(system("%s/%s%s/c%d/%s" % (name, net, "+lossy" if lossy else "", mc, hist),
                                  copy.deepcopy(actors), network=net, lossy=lossy, max_crashes=mc, init_net=init_net,
                                  history=hist, net_len=6, hist_len=48))
    return out


def random_cmds(rng, n, maxlen=3):
    cmds = []
    for _ in range(rng.choice([0, 0, 1, 1, 2, maxlen])):
        r = rng.random()
        if r < 0.5:
            cmds.append(send(rng.randrange(0, n + (1 if rng.random() < 0.05 else 0)), rng.randint(1, 3)))
        elif r < 0.65:
            cmds.append(setT(rng.randint(1, 2)))
        elif r < 0.75:
            cmds.append(cancel(rng.randint(1, 2)))
        elif r < 0.92:
            cmds.append(choose(rng.choice(["k1", "k2"]), rng.sample([1, 2, 3], rng.randint(1, 2))))
        else:
            cmds.append(remove(rng.choice(["k1", "k2"])))
    return cmds


def random_actor(rng, n, nstates=3):
    on_msg, on_timer, on_random = [], [], []
    for s in range(nstates):
        for m in (1, 2, 3):
            if rng.random() < 0.6:
                touch = rng.random() < 0.75
                nxt = rng.randrange(nstates) if touch else s
                src = -1 if rng.random() < 0.7 else rng.randrange(n)
                on_msg.append(entry(s, touch, nxt, random_cmds(rng, n) if rng.random() < 0.7 else [], src=src, msg=m))
        for t in (1, 2):
            if rng.random() < 0.7:
                touch = rng.random() < 0.6
                nxt = rng.randrange(nstates) if touch else s
                cmds = random_cmds(rng, n)
                r = rng.random()
                if r < 0.2:
                    cmds = [setT(t)]        # pure renewal
                elif r < 0.45:
                    # near-renewals: the fired timer is re-armed but something else happens too
                    o = 3 - t
                    cmds = rng.choice([[setT(t), setT(o)], [setT(o), setT(t)], [setT(t), setT(t)], [setT(t), cancel(t)],
                                       [cancel(t), setT(t)], [setT(t), send(rng.randrange(n), 1)], [setT(o)],
                                       [setT(t), choose("k1", [1])]])
                    if rng.random() < 0.7:
                        touch, nxt = False, s
                on_timer.append(entry(s, touch, nxt, cmds, t=t))
        for v in (1, 2, 3):
            if rng.random() < 0.6:
                touch = rng.random() < 0.7
                nxt = rng.randrange(nstates) if touch else s
                on_random.append(entry(s, touch, nxt, random_cmds(rng, n, 2), val=v))
    return actor(rng.randrange(nstates), random_cmds(rng, n), on_msg, on_timer, on_random)


def random_system(rng, sid, wrap="none"):
    n = rng.choice([1, 2, 2, 3])
    actors = [random_actor(rng, n) for _ in range(n)]
    net = rng.choice(["ordered", "dup", "nondup"])
    init_net = [(rng.randrange(n), rng.randrange(n), rng.randint(1, 3)) for _ in range(rng.choice([0, 0, 1, 2]))]
    if init_net and rng.random() < 0.25:
        init_net.append(init_net[0])                    # the same envelope twice in the initial network
    return system(sid, actors, network=net, lossy=rng.random() < 0.4, max_crashes=rng.choice([0, 0, 1, 2, n]),
                  init_net=init_net, history=rng.choice(["none", "none", "log", "count", "in_only", "out_only"]),
                  net_len=rng.choice([3, 4, 5]), hist_len=rng.choice([0, 16, 24]), wrap=wrap, max_states=1500)
