"""./check <ID> --replay <file>: re-executes the case stored in a replay file against the current /repo tree."""
import json, os
from vlib import *


def main(pid, path):
    rp = json.load(open(path))
    case = rp.get("case", {})
    res = Result(pid, "quick")
    import fam_graph, fam_actor, fam_consistency
    if "graph" in case and "run" in case and case["graph"].get("succ") is not None and "family" in case["graph"]:
        g = case["graph"]
        cfg = case["run"]["cfg"]
        fam_graph.run_family(res, pid + "-replay", [case["check"]], [g], lambda i, gg_: [cfg], par=1, reach_oracle=False)
    elif "system" in case and isinstance(case["system"], dict) and "actors" in case["system"]:
        s = case["system"]
        fields = [case["check"]]
        fam_actor.run_family(res, pid + "-replay", [s], fields, fields, real_counts=True)
    elif "result" in case and "h" in case["result"]:
        wd = workdir(pid + "-replay")
        recs, judged = fam_consistency.replay_and_judge(wd, [dict(kind=case["result"]["kind"], h=case["result"]["h"])])
        for rec, j in zip(recs, judged):
            for f in j["failed"]:
                res.violation("%s/%s" % (f, rec["kind"]), dict(check=f, result=rec))
    else:
        log("replay: this case is re-checked by running the whole quick check of %s" % pid)
        import importlib
        chk = importlib.import_module("__main__").registry()[pid]
        chk(res)
    log("replay of %s: signature recorded = %s" % (path, rp.get("signature")))
    # do not overwrite the evidence of the real check with a replay's evidence
    os.environ["VERIF_EVID"] = os.path.join(WORK, "replay-evidence")
    import vlib
    vlib.EVID = os.environ["VERIF_EVID"]
    return res.finish()
