#!/bin/bash
# usage: try_mutant.sh <patch.diff> <check id>...   applies the patch to /repo, runs the quick checks, reverts.
P=$1; shift
cd /repo || exit 2
if [ -n "$(git status --porcelain --untracked-files=no)" ]; then echo "/repo not clean"; exit 2; fi
git apply "$P" || { echo "patch does not apply"; exit 2; }
cd /verif
for c in "$@"; do
  out=$(./check $c --tier quick 2>&1); rc=$?
  echo "== $c rc=$rc"; echo "$out" | grep -E "VIOLATION|signature|TOOL-ERROR|KNOWN|quick:" | head -8
done
git -C /repo checkout -- .
