#!/bin/bash
# usage: try_mutant_wt.sh <worktree> <patch.diff> <check id>...
# Tries a seeded change in a scratch worktree: a copy of the harness is pointed at the worktree, the patch is applied
# there, the quick checks run with scratch work/evidence dirs, and the patch is reverted. /repo is not touched.
WT=$1; P=$2; shift; shift
S=/tmp/mh/$(echo $WT | tr "/" "_")
mkdir -p $S
rsync -a --delete --exclude target /verif/harness/ $S/harness/
sed -i "s#path = \"/repo\"#path = \"$WT\"#" $S/harness/Cargo.toml
cd $WT && git checkout -q -- . && git apply "$P" || { echo "patch does not apply"; exit 2; }
cd /verif
export VERIF_HARNESS=$S/harness VERIF_WORK=$S/work VERIF_EVID=$S/evidence VERIF_REPLAYS=$S/replays
for c in "$@"; do
  out=$(./check $c --tier quick 2>&1); rc=$?
  echo "== $c rc=$rc"; echo "$out" | grep -E "VIOLATION|signature|TOOL-ERROR|KNOWN|quick:" | head -8
done
git -C $WT checkout -q -- .
