"""C05 (parallel checking) and the timeout / run-control half of C12.

Design level: TLC model-checks specs/JobMarket.tla (all interleavings of 1-3 workers + timeout thread; safety,
deadlock freedom, termination and stop propagation under weak fairness).
Binding: the event log of the real job market (cfg-guarded hooks: one event per critical section, sequence number
taken under the lock) is validated line by line by TLC against specs/JobMarketTrace.tla -- for scripted
multi-thread scenarios against the bare JobBroker and for real multi-threaded checker runs on large arithmetic
graphs, whose visited sets / verdicts are additionally judged through CheckerObs."""
import os, json, random
from vlib import *
import gen_graphs as gg
import fam_graph


def gen_scenarios(rng, n, timeouts=False):
    out = []
    for sid in range(1, n + 1):
        t = rng.choice([1, 2, 2, 3, 3, 4])
        scripts = []
        for _ in range(t):
            ops = []
            for _ in range(rng.randint(1, 7)):
                r = rng.random()
                if r < 0.4:
                    ops.append(dict(op="pop"))
                elif r < 0.6:
                    ops.append(dict(op="work", a=rng.randint(0, 3), b=rng.randint(0, 5)))
                elif r < 0.8:
                    ops.append(dict(op="split"))
                elif r < 0.93:
                    ops.append(dict(op="push", a=rng.randint(1, 4)))
                else:
                    ops.append(dict(op="exit"))
            # the canonical worker shape too
            if rng.random() < 0.4:
                ops = []
                for _ in range(rng.randint(1, 4)):
                    ops += [dict(op="pop"), dict(op="work", a=rng.randint(1, 3), b=rng.randint(0, 4)), dict(op="split")]
                ops.append(dict(op="pop"))
            scripts.append(ops)
        sc = dict(sid=sid, threads=t, init=rng.choice([0, 1, 2, 5]), timeout_ms=0, scripts=scripts, seed=rng.randint(1, 2 ** 40))
        out.append(sc)
    return out


def validate_events(res, wd, runs, label):
    """runs: list of (run id, events). Concatenate and let TLC consume them. Returns (bad list, coverage)."""
    ep = os.path.join(wd, "events-%s.ndjson" % label)
    op = os.path.join(wd, "trace-%s.json" % label)
    n = 0
    with open(ep, "w") as f:
        for rid, evs in runs:
            for e in evs:
                e = dict(e)
                e["run"] = rid
                f.write(json.dumps(e, separators=(",", ":")) + "\n")
                n += 1
    if n == 0:
        return [], []
    r = run_tlc("JobMarketTrace.tla", "cfg/JobMarketTrace.cfg", env=dict(EVENTS=ep, OUT=op), workers=1, timeout=2400,
                name="mtrace-" + label, heap="6g", deque=True)
    if not r["ok"]:
        raise ToolError("trace validation did not consume the whole log (%s)\n%s" % (r["violated"], r["out"][-2500:]))
    o = json.load(open(op))
    if o["n"] != n:
        raise ToolError("trace validation lost events")
    res.extra["market_events_validated"] = res.extra.get("market_events_validated", 0) + n
    return o["bad"], o["cov"]


def mc_jobmarket(res, cfgs):
    for cfg in cfgs:
        r = run_tlc("JobMarket.tla", "cfg/%s.cfg" % cfg, workers=10, timeout=2400, heap="10g", name=cfg)
        res.add_tlc(r, cfg)
        if not r["ok"]:
            raise ToolError("%s: %s violated on the SPEC of the job market\n%s" % (cfg, r["violated"], r["out"][-3000:]))


def asis_must_fail(res):
    """non-vacuity: the as-found variant of the protocol (workers that never revisit the market) violates BoundedDelay"""
    r = run_tlc("JobMarket.tla", "cfg/JobMarket_1w_timeout_asis.cfg", workers=4, timeout=600, name="jm-asis")
    if r["violated"] != "BoundedDelay":
        raise ToolError("self-check: the as-found job-market variant should violate BoundedDelay, got %s" % r["violated"])
    res.notes.append("self-check: JobMarket_1w_timeout_asis (worker never revisits the market) violates BoundedDelay as expected")


def f4_graphs(rng, q):
    """arithmetic families large enough that 1500-state blocks, sharing, waiting and wake-ups really happen"""
    gs = []
    keep = lambda n: [dict(kind="always", name="keep", sat=[])]   # sat unused for big graphs: see props_big
    specs = []
    for i in range(2 if q else 10):
        n = rng.choice([5000, 7000]) if q else rng.choice([9000, 20000, 60000])
        while True:
            params = [rng.choice([3, 5, 7, 11]), rng.randint(0, 50), rng.choice([1, 2, 3, 97])]
            if big_layers(dict(family="affine", n=n, params=params)) * n <= 30_000_000:
                break
        specs.append(("affine", n, params))
    specs.append(("grid", 80 * 60, [80, 60]) if q else ("grid", 100 * 80, [100, 80]))
    specs.append(("tree", 6000 if q else 40000, []))
    # (the visitor re-executes the model along each path, which is quadratic in the fan-out: keep the bush moderate)
    specs.append(("chainbush", 1700 if q else 4000, [40]))
    if not q:
        specs.append(("grid", 300 * 200, [300, 200]))
        specs.append(("chainbush", 6000, [3000]))
    for k, (fam, n, params) in enumerate(specs):
        gs.append(dict(id="F4-%s-%d" % (fam, k), family=fam, n=n, init=[1], succ=[], inb=[], params=params, poison=0, rep=[],
                       props=[dict(kind="always", name="keep", sat=list(range(0))),
                              dict(kind="sometimes", name="never", sat=[])]))
    return gs


def big_reach(g):
    """reachable set of an arithmetic graph (python mirror of TableModel::succs, used only to SIZE the TLC oracle run and
    as a cross-check of it; the judge is TLC, see MCBigGraph)"""
    fam, n, p = g["family"], g["n"], g["params"]

    def succs(s):
        if fam == "affine":
            i = s - 1
            return [((p[0] * i + p[1]) % n) + 1, ((i + p[2]) % n) + 1]
        if fam == "grid":
            w, h = p
            i = s - 1
            x, y = i % w, i // w
            r = []
            if x + 1 < w:
                r.append(y * w + x + 2)
            if y + 1 < h:
                r.append((y + 1) * w + x + 1)
            return r
        if fam == "tree":
            return [c for c in (2 * s, 2 * s + 1) if c <= n]
        if fam == "chainbush":
            k = p[0]
            return [s + 1] if s < k else (list(range(k + 1, n + 1)) if s == k else [])
    seen = {1}
    frontier = [1]
    layers = 0
    while frontier:
        layers += 1
        nxt = []
        for s in frontier:
            for t in succs(s):
                if t not in seen:
                    seen.add(t)
                    nxt.append(t)
        frontier = nxt
    g["_layers"] = layers
    return seen


def big_layers(g):
    """number of BFS layers (sizing only: the recording visitor re-executes the model along the path of every visit, so
    its cost is |Reach| x depth; graphs too deep for the harness watchdog are not generated)"""
    h = dict(g)
    big_reach(h)
    return h["_layers"]


def deep_dfs(g, strategy):
    """a DFS path on the big affine graphs is tens of thousands of states long and the recording visitor re-executes the
    model along the path of every visit (quadratic): such runs go without the visitor, the model counts evaluations"""
    return strategy == "dfs" and g["family"] == "affine" and g["n"] >= 20000


def big_props(rng):
    return [dict(kind="always", name="keep", sat=[], mode="all", m=0, r=0),
            dict(kind="sometimes", name="never", sat=[], mode="none", m=0, r=0)]


def judge_big(res, wd, g, runs, tag):
    """TLC judges the runs of one graph; the records of big graphs are large (one line per visit), so they are judged in
    groups whose total number of visits stays moderate"""
    gp = os.path.join(wd, "bg-%s.ndjson" % tag)
    write_ndjson(gp, [g])
    groups, cur, vol = [], [], 0
    for r in runs:
        v = len(r["visits"]) + 1
        if cur and vol + v > 900000:
            groups.append(cur)
            cur, vol = [], 0
        cur.append(r)
        vol += v
    if cur:
        groups.append(cur)
    out = dict(judged=[], reach=0)
    for k, grp in enumerate(groups):
        rp = os.path.join(wd, "br-%s-%d.ndjson" % (tag, k))
        op = os.path.join(wd, "bo-%s-%d.json" % (tag, k))
        write_ndjson(rp, grp)
        r = run_tlc("JudgeBigRuns.tla", "cfg/empty.cfg", env=dict(GRAPH=gp, RUNS=rp, OUT=op), timeout=2400, name="jbig-%s-%d" % (tag, k), heap="8g")
        if not r["ok"]:
            raise ToolError("big-run judge failed: " + r["out"][-2500:])
        o = json.load(open(op))
        out["judged"] += o["judged"]
        out["reach"] = o["reach"]
        os.remove(rp)
    return out


def checker_runs(res, pid, graphs, cfgs_for, fields, wd, tag):
    """real checker runs with market log (par 1); returns (runs, judged per graph)"""
    items = [dict(g=g, gi=i + 1, cfgs=cfgs_for(i, g)) for i, g in enumerate(graphs)]
    ip = os.path.join(wd, "items-%s.ndjson" % tag)
    rp = os.path.join(wd, "runs-%s.ndjson" % tag)
    write_ndjson(ip, items)
    run_vh(["graphs", "--in", ip, "--out", rp, "--par", "1"], timeout=3400)
    runs = read_ndjson(rp)
    # 1. every market log is a behaviour of the protocol
    logs = []
    for r in runs:
        if r["cfg"].get("market_log") and r["market"]:
            evs = list(r["market"])
            evs.append(dict(ev="End", thread="", arg1=0, arg2=0, open=False, thread_count=0, open_count=0, batches=[]))
            if not r["done"]["joined"]:
                evs = evs[:-1]
            logs.append((r["rid"], evs))
    bad, cov = validate_events(res, wd, logs, tag)
    byrid = {r["rid"]: r for r in runs}
    for b in bad:
        run = byrid[b["run"]]
        for why in b["why"]:
            res.violation("market/%s" % why, dict(check="market_trace", event=b, cfg=run["cfg"], graph_id=graphs[run["gi"] - 1]["id"],
                                                  log=run["market"][max(0, b["l"] - 12):b["l"] + 2] if False else run["market"][:60]))
    # 2. outcomes judged per graph (one TLC process per graph, in parallel)
    import concurrent.futures as cf
    todo = [(gi, g, [r for r in runs if r["gi"] == gi + 1]) for gi, g in enumerate(graphs)]
    todo = [t for t in todo if t[2]]
    with cf.ThreadPoolExecutor(max_workers=6) as ex:
        outs = list(ex.map(lambda t: judge_big(res, wd, t[1], t[2], "%s-%d" % (tag, t[0])), todo))
    for (gi, g, rs), o in zip(todo, outs):
        for j in o["judged"]:
            run = byrid[j["rid"]]
            for f in fields:
                if f in j["failed"]:
                    res.violation("%s/%s/t%d" % (f, run["cfg"]["strategy"], min(run["cfg"]["threads"], 2)),
                                  dict(check=f, graph={k: g[k] for k in ("id", "family", "n", "params", "props", "init")}, cfg=run["cfg"],
                                       done=run["done"], n_visits=len(run["visits"])))
            if j["threads_used"] >= 2:
                res.extra["runs_with_work_shared_between_threads"] = res.extra.get("runs_with_work_shared_between_threads", 0) + 1
        res.notes.append("%s: |Reach| = %d, %d runs judged" % (g["id"], o["reach"], len(rs)))
    res.traces += len(runs)
    res.evaluations += len(runs)
    res.nontrivial += len([r for r in runs if r["cfg"]["threads"] > 1 and len(r["market"]) > 8])
    return runs, cov


def c05(res):
    rng = random.Random(seed() * 1000 + 5)
    q = res.tier == "quick"
    wd = workdir("C05-%s" % res.tier)
    # design level
    mc_jobmarket(res, ["JobMarket_2w", "JobMarket_2w_timeout", "JobMarket_1w_timeout"] + ([] if q else ["JobMarket_3w_timeout", "JobMarket_3w_timeout_b1"]))
    asis_must_fail(res)
    # scripted scenarios against the bare broker
    scs = gen_scenarios(rng, 400 if q else 6000)
    sp = os.path.join(wd, "sc.ndjson")
    so = os.path.join(wd, "sc-out.ndjson")
    write_ndjson(sp, scs)
    run_vh(["market", "--in", sp, "--out", so], timeout=3000)
    outs = read_ndjson(so)
    # (the log of a scenario whose threads never returned may be a worker spinning on the market: a prefix is validated)
    def evs_of(o):
        return o["events"] if not o["hung"] or len(o["events"]) <= 4000 else o["events"][:4000]
    bad, cov = validate_events(res, wd, [(o["sid"], evs_of(o)) for o in outs], "scen")
    bysid = {s["sid"]: s for s in scs}
    for o in outs:
        if o["hung"]:
            res.violation("market/thread_never_returned", dict(check="hang", scenario=bysid[o["sid"]], n_events=len(o["events"]),
                                                               events=o["events"][:120], last_events=o["events"][-40:]))
            res.notes.append("the scenario runner stops after a scenario whose threads never return: %d of %d scenarios were run" % (len(outs), len(scs)))
    for b in bad:
        for why in b["why"]:
            res.violation("market/%s" % why, dict(check="market_trace", event=b, scenario=bysid[b["run"]]))
    res.traces += len(outs)
    res.evaluations += len(outs)
    res.nontrivial += len([o for o in outs if len(o["events"]) > 6])
    res.samples.append(dict(scenario=scs[0], events=outs[0]["events"][:14]))
    # real checkers on big graphs
    graphs = f4_graphs(rng, q)
    for g in graphs:
        g["props"] = big_props(rng)
    threads = [1, 2, 4, 8] if q else [1, 2, 3, 4, 8, 16]

    def cfgs(i, g):
        out = []
        large = g["n"] > 20000
        for s in ("bfs", "dfs"):
            # (a DFS path on the big affine graphs is tens of thousands of states long and the recording visitor re-executes
            #  the model along the path of every visit: those runs go without the visitor, the model counts evaluations)
            blind = deep_dfs(g, s)
            for t in ([1, 4, 16] if large else threads):
                for pz in ((0, 1) if (q or t == 1 or large) else (0, 1, 2)):
                    out.append(gg.base_cfg(s, t, light=True, market_log=True, perturb=(rng.randint(1, 2 ** 31) if pz else 0), watchdog_ms=60000,
                                           no_visitor=blind))
        out.append(gg.base_cfg("ondemand", 2, light=True, market_log=True, watchdog_ms=60000))
        # on-demand with several workers and requests that nobody can serve (not pending / never pending) queued before
        # run_to_completion: every worker must still get to hear of it
        for t in ((2, 4) if q else (2, 3, 4, 8)):
            out.append(gg.base_cfg("ondemand", t, light=True, market_log=True, watchdog_ms=60000,
                                   requests=[g["n"], 1, max(1, g["n"] - 1), 2, g["n"] // 2 + 1]))
        return out
    runs, cov2 = checker_runs(res, "C05", graphs, cfgs, ["joined", "edges", "subset", "once", "complete", "evals_once", "verdicts", "stop_reason"], wd, "f4")
    # insert-if-absent arbitration: a ladder whose two rails are walked side by side by two workers (rendezvous in
    # next_state), every join state being generated by both at the same moment; evaluations are counted by the model
    L = 1200
    ladder = dict(id="F4-ladder", family="ladder", n=3 * L, init=[1, L + 1], succ=[], inb=[], params=[L], poison=0, rep=[], props=big_props(rng))

    def lcfgs(i, g):
        return [gg.base_cfg(s_, t, no_visitor=True, watchdog_ms=60000) for s_ in ("dfs", "bfs") for t in (2, 3) for _ in range(2 if q else 5)] + \
               [gg.base_cfg("dfs", 1, no_visitor=True, watchdog_ms=60000)]
    checker_runs(res, "C05", [ladder], lcfgs, ["joined", "evals_once"], wd, "ladder")
    lp = os.path.join(wd, "ladder.ndjson")
    write_ndjson(lp, [ladder])
    r = run_tlc("MCGraph.tla", "cfg/MCGraphCount.cfg", env=dict(GRAPHS=lp), timeout=900, name="mcgraph-ladder")
    res.add_tlc(r, "MCGraph[ladder]")
    if not r["ok"] or r["distinct"] != ladder["n"]:
        raise ToolError("TLC's exploration of the ladder graph found %d states, expected %d" % (r["distinct"], ladder["n"]))
    # stop reasons: finish condition, target, panic in model code
    g2 = []
    for g in graphs[:2 if q else 6]:
        h = dict(g)
        h["id"] += "-stop"
        h["props"] = [dict(kind="always", name="keep", sat=[], mode="all", m=0, r=0),
                      dict(kind="sometimes", name="hit", sat=[], mode="mod", m=rng.choice([97, 211, 1009]), r=rng.randint(1, 90))]
        g2.append(h)
        p = dict(g)
        p["id"] += "-panic"
        p["props"] = big_props(rng)
        p["poison"] = sorted(big_reach(g))[len(big_reach(g)) // 2]
        g2.append(p)

    def cfgs2(i, g):
        out = []
        for s in ("bfs", "dfs"):
            blind = deep_dfs(g, s)
            for t in (1, 2, 4):
                if g["poison"]:
                    out.append(gg.base_cfg(s, t, light=True, market_log=True, watchdog_ms=60000, no_visitor=blind))
                    # ... also when the caller waits with join_and_report instead of join
                    out.append(gg.base_cfg(s, t, light=True, watchdog_ms=60000, join_and_report=True, no_visitor=blind))
                else:
                    out.append(gg.base_cfg(s, t, light=True, market_log=True, watchdog_ms=60000, finish=dict(variant="Any", names=[]), no_visitor=blind))
                    out.append(gg.base_cfg(s, t, light=True, market_log=True, watchdog_ms=60000, target_states=2000, no_visitor=blind))
        return out
    runs2, cov3 = checker_runs(res, "C05", g2, cfgs2, ["joined", "edges", "subset", "once", "stop_reason"], wd, "stop")
    # a panic in model code must surface from join (not hang, not vanish)
    for r in runs2:
        g = g2[r["gi"] - 1]
        if g["poison"] and r["done"]["joined"] and not r["done"]["join_panicked"]:
            res.violation("panic_swallowed/%s" % r["cfg"]["strategy"], dict(check="panic_surfaces", graph_id=g["id"], cfg=r["cfg"], done=r["done"]))
    # ... and the other workers stop too (within their current block): two long chains, one worker each after the first
    # block; the owner of the odd chain panics, the evaluations begun after that are counted by the model
    # (chains no longer than needed: a DFS path costs O(depth) per step, and three workers do not share two jobs)
    PP, LB = 2500, 15000
    tc = dict(id="F4-twochains", family="twochains", n=2 * (PP + LB), init=[1, 2], succ=[], inb=[], params=[], poison=2 * PP + 1, rep=[],
              props=big_props(rng))

    def tcfgs(i, g):
        return [gg.base_cfg(s_, t, no_visitor=True, watchdog_ms=60000) for s_ in ("bfs", "dfs") for t in (2, 3) for _ in range(1 if q else 4)] + \
               [gg.base_cfg(s_, 2, no_visitor=True, watchdog_ms=60000, join_and_report=True) for s_ in ("bfs", "dfs")]
    runs3, _ = checker_runs(res, "C05", [tc], tcfgs, ["joined", "stop_after_panic"], wd, "twochains")
    for r in runs3:
        if r["done"]["joined"] and not r["done"]["join_panicked"]:
            res.violation("panic_swallowed/%s" % r["cfg"]["strategy"], dict(check="panic_surfaces", graph_id=tc["id"], cfg=r["cfg"], done=r["done"]))
    res.notes.append("two chains, panic in one owner: evaluations begun after the panic per run = %s (bound: threads x 1500 + 3000)" % (
        sorted(r["done"].get("evals_after_poison", -1) for r in runs3)))
    allcov = sorted(set(tuple(c) for c in cov + cov2 + cov3))
    res.extra["protocol_steps_covered_by_real_traces"] = ["%s:%s" % c for c in allcov]
    res.rule = ("design: JobMarket.tla model-checked for 1-3 workers (+timeout thread): NoDuplication, NoLoss, CloseOnlyWhenIdle, "
                "Complete, CountOK, NoLostWakeup, NoStuck, Termination, StopPropagates. binding: event logs of the real job market "
                "(scripted 1-4 thread scenarios on the bare broker; real bfs/dfs/on-demand runs with 1-16 threads and seeded "
                "schedule perturbation on arithmetic graphs of 6k-60k states) validated line by line against JobMarketTrace.tla; "
                "visited set / counts / verdicts of every run judged against Graph!Reach; stop reasons finish/target/panic. "
                "non-trivial = multi-thread runs whose market log shows sharing")
    res.assumptions += ["real OS interleavings are sampled (perturbed), the enumeration of all interleavings is at design level",
                        "parking_lot's Mutex/Condvar behave as a lock and a condition variable"]
    shutil.rmtree(wd, ignore_errors=True)


def c12(res):
    rng = random.Random(seed() * 1000 + 12)
    q = res.tier == "quick"
    wd = workdir("C12m-%s" % res.tier)
    # (0) design level: bounded delay after expiry, for 1-2 workers; the as-found variant must violate it
    mc_jobmarket(res, ["JobMarket_1w_timeout", "JobMarket_2w_timeout"])
    asis_must_fail(res)
    fam_graph.checker_controls(res, rng, q)
    # (a) HasDiscoveries::matches on every (property list, discoveries, variant)
    mp = os.path.join(wd, "matches.ndjson")
    mo = os.path.join(wd, "matches.json")
    run_vh(["matches", "--out", mp], timeout=600)
    r = run_tlc("JudgeMatches.tla", "cfg/empty.cfg", env=dict(RECS=mp, OUT=mo), timeout=1200, name="jmatches")
    if not r["ok"]:
        raise ToolError("matches judge failed: " + r["out"][-2000:])
    o = json.load(open(mo))
    recs = read_ndjson(mp)
    if not o["monotone"]:
        raise ToolError("HasDiscoveries.tla: Matches is not monotone (spec error)")
    for i in o["bad"]:
        rec = recs[i - 1]
        res.violation("matches/%s" % rec["finish"]["variant"], dict(check="matches", record=rec))
    res.traces += len(recs)
    res.evaluations += len(recs)
    res.nontrivial += len(recs)
    res.notes.append("HasDiscoveries::matches: %d (property list, discovery set, variant) cases, all judged; Matches is monotone" % len(recs))
    # (b) finish conditions x targets x depth limits x strategies x threads on small graphs
    graphs = gg.f1_corpus(rng, 250 if q else 5000)
    graphs += [gg.random_graph(rng, "F2-%d" % i, 3, 10) for i in range(500 if q else 5000)]
    graphs += [gg.random_forest(rng, "F3-%d" % i, 4, 12) for i in range(100 if q else 1000)]

    def cfgs(i, g):
        out = []
        for s in ("bfs", "dfs", "ondemand"):
            for t in ((1, 2) if q else (1, 2, 4)):
                kw = {}
                r = rng.random()
                if r < 0.4:
                    kw["finish"] = gg.finish_menu(rng, g)
                if 0.3 < r < 0.6:
                    kw["target_states"] = rng.randint(1, 14)
                if r > 0.55:
                    kw["target_depth"] = rng.randint(1, 6)
                out.append(gg.base_cfg(s, t, **kw))
        out.append(gg.base_cfg("bfs", 1, target_depth=rng.randint(1, 6)))
        if any(g["inb"][s - 1] for s in g["init"]):
            out.append(gg.base_cfg("sim", 1, target_states=rng.choice([8, 30]), seed=rng.randint(0, 2 ** 32), log_chooser=True,
                                   replay_check=True, target_depth=rng.choice([0, 0, 3, 5])))
        return out
    fam_graph.run_family(res, "C12", ["stop_reason", "target", "target_real", "sim_count", "target_sim", "depth_max", "depth_min", "seed_replay", "first_trace"], graphs, cfgs)
    # (b2) targets on graphs larger than a block whose states also have successors OUTSIDE the boundary
    bg = []
    for k, (w, h, f) in enumerate([(90, 70, 1), (60, 120, 2), (150, 40, 3)][: (2 if q else 3)]):
        bg.append(dict(id="F4-fringed-%d" % k, family="fringed", n=w * h + 1, init=[1], succ=[], inb=[], params=[w, h, f], poison=0, rep=[],
                       props=big_props(rng)))

    def tcf(i, g):
        # several targets: a counter inflated by out-of-boundary successors reaches some of them a block earlier
        return [gg.base_cfg(s_, 1, light=True, watchdog_ms=60000, target_states=tg) for s_ in ("bfs", "dfs", "ondemand")
                for tg in (2400, 2800, 3300, 4400, 5600)] + [gg.base_cfg(s_, 2, light=True, watchdog_ms=60000, target_states=3000) for s_ in ("bfs", "dfs")]
    truns_, _ = checker_runs(res, "C12", bg, tcf, ["joined", "edges", "subset", "stop_reason", "target_real"], wd, "tgt")
    if sum(1 for r_ in truns_ if len(r_["visits"]) >= 1500) < len(truns_) // 2:
        raise ToolError("target runs on bounded big graphs explored almost nothing (vacuous)")
    # (c) timeouts on effectively unbounded models: every thread count must stop shortly after expiry
    unb = dict(id="unbounded", family="unbounded", n=4000000000, init=[1], succ=[], inb=[], params=[], poison=0, rep=[],
               props=big_props(rng))
    tcfgs = []
    for s in ("bfs", "dfs"):
        for t in ((1, 2, 4) if q else (1, 2, 3, 4, 8)):
            ms = rng.choice([300, 600])
            tcfgs.append(dict(gg.base_cfg(s, t, timeout_ms=ms, no_visitor=True, watchdog_ms=ms + 1000 + 5500), expect_timeout=True))
    tcfgs.append(dict(gg.base_cfg("sim", 2, timeout_ms=400, no_visitor=True, watchdog_ms=400 + 1000 + 5500, seed=7), expect_timeout=True))
    # a linear unbounded model: the worker's queue holds exactly one job at every block boundary
    chain = dict(unb, id="unbounded-chain", family="unbounded_chain")
    ccfgs = []
    for s_ in ("bfs", "dfs", "ondemand"):
        for t in (1, 2):
            ms = rng.choice([300, 600])
            ccfgs.append(dict(gg.base_cfg(s_, t, timeout_ms=ms, no_visitor=True, watchdog_ms=ms + 1000 + 5500), expect_timeout=True))
    # a LONG timeout (several polling periods of the timeout thread): a poll interval that grows with the time already
    # waited stays inside the slack for sub-second timeouts; DFS on the chain keeps memory small (a step costs O(depth))
    for t in (1, 2):
        ccfgs.append(dict(gg.base_cfg("dfs", t, timeout_ms=7300, no_visitor=True, watchdog_ms=7300 + 1000 + 5500), expect_timeout=True))
    ip = os.path.join(wd, "t-items.ndjson")
    rp = os.path.join(wd, "t-runs.ndjson")
    write_ndjson(ip, [dict(g=unb, gi=1, cfgs=[c]) for c in tcfgs] + [dict(g=chain, gi=2, cfgs=[c]) for c in ccfgs])
    run_vh(["graphs", "--in", ip, "--out", rp, "--par", str(len(tcfgs) + len(ccfgs))], timeout=600)
    truns = read_ndjson(rp)
    # (d) an unexpired timeout must not change results or progress (finite graph, far-future timeout, 4 threads)
    fin = f4_graphs(rng, True)[:2]
    for g in fin:
        g["props"] = big_props(rng)
    hitems = []
    for i, g in enumerate(fin):
        cs = []
        for s in ("bfs", "dfs"):
            for t in (2, 4):
                cs.append(gg.base_cfg(s, t, no_visitor=True, watchdog_ms=60000))
                cs.append(gg.base_cfg(s, t, no_visitor=True, watchdog_ms=60000, timeout_ms=600000, market_log=True))
        hitems.append(dict(g=g, gi=i + 1, cfgs=cs))
    ip2 = os.path.join(wd, "h-items.ndjson")
    rp2 = os.path.join(wd, "h-runs.ndjson")
    write_ndjson(ip2, hitems)
    run_vh(["graphs", "--in", ip2, "--out", rp2, "--par", "1"], timeout=1200)
    hruns = read_ndjson(rp2)
    for k in range(0, len(hruns), 2):
        ref, wt = hruns[k], hruns[k + 1]
        wt["done"]["ref_wall_ms"] = max(ref["done"]["wall_ms"], 1)
        wt["done"]["ref_unique"] = ref["done"]["unique"]
    allt = truns + [hruns[k + 1] for k in range(0, len(hruns), 2)]
    for i, r_ in enumerate(allt):
        r_["rid"] = i + 1
    tp = os.path.join(wd, "t-all.ndjson")
    to = os.path.join(wd, "t-all.json")
    write_ndjson(tp, allt)
    r = run_tlc("JudgeTimeouts.tla", "cfg/empty.cfg", env=dict(RUNS=tp, OUT=to), timeout=600, name="jtimeouts")
    if not r["ok"]:
        raise ToolError("timeout judge failed: " + r["out"][-2000:])
    tj = json.load(open(to))["judged"]
    # non-vacuity: every timeout run must have had its delay check applied, every far-future run its harmlessness check
    n_delay = sum(1 for j in tj if "timeout_delay" in j["applied"])
    n_harm = sum(1 for j in tj if "timeout_harmless" in j["applied"])
    if n_delay != len(truns) or n_harm != len(hruns) // 2:
        raise ToolError("timeout checks were not applied to every timeout run (%d/%d, %d/%d)" % (n_delay, len(truns), n_harm, len(hruns) // 2))
    for j in tj:
        run = allt[j["rid"] - 1]
        for f in j["failed"]:
            res.violation("%s/%s/%s" % (f, run["cfg"]["strategy"], "t1" if run["cfg"]["threads"] == 1 else "tn"),
                          dict(check=f, cfg=run["cfg"], done=run["done"]))
    # the market log of the unexpired-timeout runs: the timeout thread must not sleep while holding the market lock
    logs = [(r_["rid"], r_["market"]) for r_ in allt if r_.get("market")]
    bad, cov = validate_events(res, wd, logs, "tmo")
    byrid = {r_["rid"]: r_ for r_ in allt}
    for b in bad:
        for why in b["why"]:
            res.violation("market/%s" % why, dict(check="market_trace", event=b, cfg=byrid[b["run"]]["cfg"]))
    res.traces += len(allt)
    res.evaluations += len(allt)
    res.nontrivial += len(allt)
    res.samples.append(dict(cfg=truns[0]["cfg"], done=truns[0]["done"]))
    res.rule = ("(a) matches: all property lists <=3 x discovery subsets x variants; (b) bfs/dfs/on-demand/simulation on generated "
                "graphs x finish conditions x target_state_count x target_max_depth x threads: early stop only with a reason, "
                "total >= target unless exhausted, no visit deeper than the limit, 1-thread BFS visits everything nearer; seed "
                "replay of the first simulation trace (logging chooser) and its validity; (c) timeout on an unbounded model for "
                "threads 1-8: join within expiry + 1 s poll + slack; (d) far-future timeout on finite graphs: same counts, "
                "comparable wall time, market log never shows the timeout thread sleeping with the lock held")
    res.assumptions += ["wall-clock bounds carry 4 s (delay) / max(5x, +2 s) (harmlessness) of slack for a loaded machine"]
    shutil.rmtree(wd, ignore_errors=True)
