--------------------------- MODULE HasDiscoveries ---------------------------
(***************************************************************************)
(* C12: what each finish condition means ("each HasDiscoveries variant     *)
(* meaning what its name says").  f = [variant, names]; disc = set of      *)
(* property names that have a discovery; props = sequence of [kind, name]. *)
(***************************************************************************)
EXTENDS Naturals, Sequences, FiniteSets

IsFailureKind(k) == k \in {"always", "eventually"}

Matches(f, disc, props) ==
  LET names == {f.names[i] : i \in DOMAIN f.names}
      idx   == DOMAIN props
  IN CASE f.variant = "All"         -> \A i \in idx : props[i].name \in disc
       [] f.variant = "Any"         -> disc # {}
       [] f.variant = "AnyFailures" -> \E i \in idx : IsFailureKind(props[i].kind) /\ props[i].name \in disc
       [] f.variant = "AllFailures" -> \A i \in idx : IsFailureKind(props[i].kind) => props[i].name \in disc
       [] f.variant = "AllOf"       -> \A x \in names : x \in disc
       [] f.variant = "AnyOf"       -> \E x \in names : x \in disc

(* Every variant is monotone in the set of discoveries: once a finish
   condition holds it keeps holding (checked by TLC in MCHasDiscoveries). *)
Monotone(f, props, universe) ==
  \A d1 \in SUBSET universe : \A d2 \in SUBSET universe :
     (d1 \subseteq d2 /\ Matches(f, d1, props)) => Matches(f, d2, props)
=============================================================================
