-------------------------------- MODULE MCOrl --------------------------------
(* TLC explores the ordered-reliable-link protocol over every drop / duplicate / reorder / retransmission
   interleaving of the scripted systems (C16 at design level). *)
EXTENDS OrderedReliableLink, Json, IOUtils, TLC
Systems == ndJsonDeserialize(IOEnv.SYSTEMS)
VARIABLES si, st
vars == <<si, st>>
sys == Systems[si]
Init == si \in DOMAIN Systems /\ st = OInit(sys)
Next == /\ UNCHANGED si
        /\ \E a \in OEnabled(sys, st) :
              /\ ~OIgnored(sys, st, a)
              /\ st' = OApply(sys, st, a)
              /\ InBoundary(sys, st')
Spec == Init /\ [][Next]_vars
Prefix == PrefixOK(sys, st)
AckedHanded == AckedImpliesHanded(sys, st)
Complete == CompleteOK(sys, st)
=============================================================================
