------------------------------- MODULE TwoPhase -------------------------------
(***************************************************************************)
(* Two-phase commit as specified by Gray and Lamport in "Consensus on       *)
(* Transaction Commit" (the TLA+ specification distributed with the paper   *)
(* and the TLA+ examples).  examples/2pc.rs of stateright implements the    *)
(* same protocol as a stateright Model; TLC's exploration of THIS spec is a  *)
(* third-party oracle for the real checkers: number of reachable states     *)
(* (288 for 3, 8 832 for 5 resource managers), the invariant TCConsistent,  *)
(* reachability of all-committed / all-aborted, and -- with TLC's symmetry  *)
(* reduction over RM -- the number of symmetry classes (665 for 5).         *)
(***************************************************************************)
CONSTANT RM
VARIABLES rmState, tmState, tmPrepared, msgs
vars == <<rmState, tmState, tmPrepared, msgs>>

Messages == [type : {"Prepared"}, rm : RM] \cup [type : {"Commit", "Abort"}]

TPTypeOK ==
  /\ rmState \in [RM -> {"working", "prepared", "committed", "aborted"}]
  /\ tmState \in {"init", "committed", "aborted"}
  /\ tmPrepared \subseteq RM
  /\ msgs \subseteq Messages

TPInit ==
  /\ rmState = [rm \in RM |-> "working"]
  /\ tmState = "init"
  /\ tmPrepared = {}
  /\ msgs = {}

TMRcvPrepared(rm) ==
  /\ tmState = "init"
  /\ [type |-> "Prepared", rm |-> rm] \in msgs
  /\ tmPrepared' = tmPrepared \cup {rm}
  /\ UNCHANGED <<rmState, tmState, msgs>>
TMCommit ==
  /\ tmState = "init" /\ tmPrepared = RM
  /\ tmState' = "committed"
  /\ msgs' = msgs \cup {[type |-> "Commit"]}
  /\ UNCHANGED <<rmState, tmPrepared>>
TMAbort ==
  /\ tmState = "init"
  /\ tmState' = "aborted"
  /\ msgs' = msgs \cup {[type |-> "Abort"]}
  /\ UNCHANGED <<rmState, tmPrepared>>
RMPrepare(rm) ==
  /\ rmState[rm] = "working"
  /\ rmState' = [rmState EXCEPT ![rm] = "prepared"]
  /\ msgs' = msgs \cup {[type |-> "Prepared", rm |-> rm]}
  /\ UNCHANGED <<tmState, tmPrepared>>
RMChooseToAbort(rm) ==
  /\ rmState[rm] = "working"
  /\ rmState' = [rmState EXCEPT ![rm] = "aborted"]
  /\ UNCHANGED <<tmState, tmPrepared, msgs>>
RMRcvCommitMsg(rm) ==
  /\ [type |-> "Commit"] \in msgs
  /\ rmState' = [rmState EXCEPT ![rm] = "committed"]
  /\ UNCHANGED <<tmState, tmPrepared, msgs>>
RMRcvAbortMsg(rm) ==
  /\ [type |-> "Abort"] \in msgs
  /\ rmState' = [rmState EXCEPT ![rm] = "aborted"]
  /\ UNCHANGED <<tmState, tmPrepared, msgs>>

TPNext ==
  \/ TMCommit \/ TMAbort
  \/ \E rm \in RM : TMRcvPrepared(rm) \/ RMPrepare(rm) \/ RMChooseToAbort(rm) \/ RMRcvCommitMsg(rm) \/ RMRcvAbortMsg(rm)
TPSpec == TPInit /\ [][TPNext]_vars

TCConsistent == \A r1, r2 \in RM : ~(rmState[r1] = "aborted" /\ rmState[r2] = "committed")
(* negations of the example's two `sometimes' properties: TLC must find them violated (i.e. the states are reachable) *)
NeverAllCommitted == ~\A r \in RM : rmState[r] = "committed"
NeverAllAborted == ~\A r \in RM : rmState[r] = "aborted"
=============================================================================
