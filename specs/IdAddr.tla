-------------------------------- MODULE IdAddr --------------------------------
(***************************************************************************)
(* C17: Id <-> IPv4 socket address.  A 48-bit id is b0 b1 b2 b3 b4 b5 (big  *)
(* endian); the address is ip = b0.b1.b2.b3, port = b4 b5.  TLC integers   *)
(* are 32 bit, so an id is carried as the pair (hi, lo) of 24-bit halves.  *)
(***************************************************************************)
EXTENDS Naturals, Sequences
Byte(n, k) == (n \div (256 ^ k)) % 256            \* k-th byte of a 24-bit number, k = 0 least significant
Encode(ip, port) == [hi |-> ip[1] * 65536 + ip[2] * 256 + ip[3], lo |-> ip[4] * 65536 + port]
Decode(hi, lo) == [ip |-> <<Byte(hi, 2), Byte(hi, 1), Byte(hi, 0), Byte(lo, 2)>>, port |-> lo % 65536]
RoundTripId(hi, lo) == LET a == Decode(hi, lo) IN Encode(a.ip, a.port) = [hi |-> hi, lo |-> lo]
RoundTripAddr(ip, port) == LET i == Encode(ip, port) IN Decode(i.hi, i.lo) = [ip |-> ip, port |-> port]
=============================================================================
