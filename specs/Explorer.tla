------------------------------- MODULE Explorer -------------------------------
(***************************************************************************)
(* C19: what the Explorer's HTTP API, the Path API and the on-demand       *)
(* checker must answer for a model given as a graph (Graph.tla).           *)
(* Fingerprints are opaque; the harness maps them back to nodes, so paths  *)
(* here are sequences of nodes.  The Explorer follows the MODEL (all       *)
(* initial states, all defined transitions) -- it does not apply the       *)
(* boundary.                                                               *)
(***************************************************************************)
EXTENDS Graph, TLC

(* a sequence of states that denotes a real execution of the model *)
IsExec(g, path) ==
  /\ Len(path) >= 1
  /\ \A i \in DOMAIN path : path[i] \in Nodes(g)
  /\ path[1] \in InitSet(g)
  /\ \A i \in 1..(Len(path) - 1) : path[i + 1] \in Defined(g, path[i])

(* GET /.states/fp1/../fpk : one entry per enabled action of the final state, in order; node = 0: action ignored *)
StatesView(g, path) ==
  LET sl == SuccList(g, Last(path)) IN [i \in DOMAIN sl |-> [action |-> ToString(i), node |-> sl[i]]]
(* GET /.states : the initial states in order *)
InitView(g) == g.init

ItemsMatch(items, view) ==
  /\ Len(items) = Len(view)
  /\ \A i \in DOMAIN items :
        /\ items[i].action = view[i].action
        /\ items[i].has_state <=> view[i].node # 0
        /\ items[i].node = view[i].node

(* executing a list of action indices from an initial state (Path::from_actions): the visited states, or <<>> when
   the list is not executable (not an initial state, action not enabled, or ignored) *)
RECURSIVE ExecFrom(_, _, _)
ExecFrom(g, s, acts) ==
  IF acts = <<>> THEN <<s>>
  ELSE LET sl == SuccList(g, s) IN
       IF Head(acts) \notin DOMAIN sl \/ sl[Head(acts)] = 0 THEN <<>>
       ELSE LET rest == ExecFrom(g, sl[Head(acts)], Tail(acts)) IN IF rest = <<>> THEN <<>> ELSE <<s>> \o rest
ExecActs(g, init, acts) == IF init \in InitSet(g) THEN ExecFrom(g, init, acts) ELSE <<>>

(* on-demand checking: the states that are pending (generated, not yet evaluated) after `evaluated' *)
Pending(g, evaluated) == (InitB(g) \cup UNION {SuccB(g, s) : s \in evaluated}) \ evaluated
=============================================================================
