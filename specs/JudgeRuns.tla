------------------------------ MODULE JudgeRuns ------------------------------
(* TLC as judge: loads graphs and recorded runs of the real checkers and
   evaluates CheckerObs!Verdict on each.  Env: GRAPHS, RUNS (ndjson), OUT. *)
EXTENDS CheckerObs, Json, IOUtils, TLC

Graphs == ndJsonDeserialize(IOEnv.GRAPHS)
Runs   == ndJsonDeserialize(IOEnv.RUNS)

Judged ==
  [ r \in DOMAIN Runs |->
      LET run == Runs[r]  g == Graphs[run.gi]
          k == Checks(g, run)
      IN [rid |-> run.rid,
          failed |-> {f \in DOMAIN k : ~k[f].c},
          applied |-> {f \in DOMAIN k : k[f].a},
          wdetail |-> IF k["witness"].c THEN {} ELSE WitnessDetail(g, run),
          feat |-> Features(g, run)] ]

ASSUME JsonSerialize(IOEnv.OUT, [n |-> Len(Runs), judged |-> Judged])
=============================================================================
