----------------------------- MODULE JudgeMatches -----------------------------
(* TLC as judge of the real HasDiscoveries::matches (C12) on every property list of <=3 properties x every
   discovery subset x every variant (AllOf / AnyOf over all subsets). *)
EXTENDS HasDiscoveries, Json, IOUtils, TLC
Recs == ndJsonDeserialize(IOEnv.RECS)
Bad == {i \in DOMAIN Recs :
          LET r == Recs[i] IN r.matches # Matches(r.finish, {r.disc[k] : k \in DOMAIN r.disc}, r.props)}
(* theorem on the spec: every variant is monotone in the discoveries (so "the condition held when the check
   stopped" implies "it holds for the final discoveries") *)
Names == {"a", "b", "c"}
MonotoneAll ==
  \A i \in DOMAIN Recs : Monotone(Recs[i].finish, Recs[i].props, {Recs[i].props[k].name : k \in DOMAIN Recs[i].props})
ASSUME JsonSerialize(IOEnv.OUT, [n |-> Len(Recs), bad |-> Bad, monotone |-> MonotoneAll])
=============================================================================
