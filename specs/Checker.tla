------------------------------- MODULE Checker -------------------------------
(***************************************************************************)
(* The search algorithm of stateright's exhaustive checkers (bfs.rs,       *)
(* dfs.rs) with its worker threads, written faithfully: one action per     *)
(* step that other workers can observe.                                    *)
(*                                                                         *)
(*  - jobs (state, path, eventually-bits, depth) live in per-worker queues *)
(*    and in batches on the job market (protocol as in JobMarket.tla);     *)
(*  - check_block: pop a job (BFS: the oldest, DFS: the newest), call the  *)
(*    visitor, run the property loop, then generate the successors ONE AT  *)
(*    A TIME (boundary filter, counter, atomic insert-if-absent on the     *)
(*    shared `generated' set, enqueue) -- so two workers racing for the    *)
(*    same successor are explored; a state none of whose successors is new *)
(*    or known (all ignored / outside the boundary) is terminal and gets   *)
(*    the eventually-discoveries for the bits still set;                   *)
(*  - after a block: finish condition (here: All), then the market visit.  *)
(*                                                                         *)
(* The correctness statement is literally the one used for real runs: at   *)
(* the end of every behaviour the record of what the visitor saw and what  *)
(* the checker reports is judged by CheckerObs!Checks (C01 C02 C03 C11     *)
(* C13), and every discovery is a valid witness at EVERY state.            *)
(* Symmetry = TRUE: symmetry reduction as in dfs.rs (the set of generated  *)
(* states holds representatives); judged by the same checks (sym_cover,    *)
(* verdicts, witness, paths) on symmetric process-vector graphs.           *)
(* KeepFirst = FALSE is the as-found treatment of eventually-discoveries   *)
(* (a terminal state overwrites an existing discovery) and must violate    *)
(* WitnessAlways.                                                          *)
(***************************************************************************)
EXTENDS CheckerObs, Json, IOUtils, TLC

CONSTANTS W, Strategy, BlockSize, KeepFirst,
          TargetDepth,    \* target_max_depth (0 = none): jobs at this depth or deeper are skipped
          TargetStates,   \* target_state_count (0 = none): checked after every block
          FinishVariant,  \* finish_when: "All" | "Any" | "AnyFailures" | "AllFailures"
          SymEnqueueRep,  \* spec mutant (the historical bug dfs.rs documents): continue with the representative instead of
                          \* the state actually reached -- the collected paths then contain steps the model does not have
          Symmetry        \* DFS only: the shared `generated' set holds REPRESENTATIVES (RepOf), the jobs and paths keep the
                          \* states actually reached (dfs.rs: "continue the path with the pre-canonicalized state")

Graphs == ndJsonDeserialize(IOEnv.GRAPHS)

VARIABLES gi, open, openCount, batches, pc, pending, cur, idx, term, blk, generated, disc, total, visits
vars == <<gi, open, openCount, batches, pc, pending, cur, idx, term, blk, generated, disc, total, visits>>

g == Graphs[gi]
N == Cardinality(W)
Min2(a, b) == IF a <= b THEN a ELSE b
NoJob == [node |-> 0, path |-> <<>>, eb |-> {}, depth |-> 0]
Job(s, p, e, d) == [node |-> s, path |-> p, eb |-> e, depth |-> d]
EvBits == {i \in DOMAIN g.props : g.props[i].kind = "eventually"}
Discovered(d) == {p[1] : p \in d}
AllDisc(d) == \A i \in DOMAIN g.props : g.props[i].name \in Discovered(d)
Finish == [variant |-> FinishVariant, names |-> <<>>]
Key(s) == IF Symmetry THEN RepOf(g, s) ELSE s
InitJobs == LET ins == SelectSeq(g.init, LAMBDA s : InB(g, s)) IN [i \in DOMAIN ins |-> Job(ins[i], <<ins[i]>>, EvBits, 1)]

Init ==
  /\ gi \in DOMAIN Graphs
  /\ open = TRUE /\ openCount = N
  /\ batches = <<InitJobs>>                    \* the spawning thread pushes all initial jobs as one batch
  /\ pc = [w \in W |-> "pop"]
  /\ pending = [w \in W |-> <<>>]
  /\ cur = [w \in W |-> NoJob] /\ idx = [w \in W |-> 0] /\ term = [w \in W |-> FALSE] /\ blk = [w \in W |-> 0]
  /\ generated = {Key(s) : s \in InitB(g)}
  /\ disc = {}
  /\ total = Len(InitJobs)
  /\ visits = <<>>

-----------------------------------------------------------------------------
(* the market (see JobMarket.tla); an empty batch makes the worker return, like an empty pop *)
WakeAll(w, f) == [v \in W |-> IF v = w THEN f ELSE IF pc[v] = "wait" THEN "woken" ELSE pc[v]]
DropBroker(w) ==
  /\ open' = FALSE /\ batches' = <<>> /\ openCount' = IF openCount > 0 THEN openCount - 1 ELSE 0
  /\ pc' = WakeAll(w, "done") /\ pending' = [pending EXCEPT ![w] = <<>>]
Take(w, nextpc) ==
  LET b == batches[Len(batches)] IN
  /\ batches' = SubSeq(batches, 1, Len(batches) - 1)
  /\ IF b = <<>>
     THEN /\ open' = FALSE /\ openCount' = IF openCount > 0 THEN openCount - 1 ELSE 0    \* returns at once: its Drop
          /\ pc' = WakeAll(w, "done") /\ UNCHANGED <<pending, blk>>
     ELSE /\ pending' = [pending EXCEPT ![w] = b] /\ blk' = [blk EXCEPT ![w] = BlockSize]
          /\ pc' = [pc EXCEPT ![w] = nextpc] /\ UNCHANGED <<open, openCount>>
Pop(w) ==
  /\ pc[w] = "pop"
  /\ \/ ~open /\ DropBroker(w) /\ UNCHANGED blk
     \/ open /\ batches # <<>> /\ Take(w, "eval")
     \/ open /\ batches = <<>> /\ openCount > 1 /\ openCount' = openCount - 1 /\ pc' = [pc EXCEPT ![w] = "wait"]
        /\ UNCHANGED <<open, batches, pending, blk>>
     \/ open /\ batches = <<>> /\ openCount <= 1 /\ open' = FALSE /\ openCount' = 0 /\ pc' = WakeAll(w, "done")
        /\ UNCHANGED <<batches, pending, blk>>
  /\ UNCHANGED <<gi, cur, idx, term, generated, disc, total, visits>>
Wake(w) ==
  /\ pc[w] = "woken" /\ openCount' = openCount + 1 /\ pc' = [pc EXCEPT ![w] = "rewoken"]
  /\ UNCHANGED <<gi, open, batches, pending, cur, idx, term, blk, generated, disc, total, visits>>
AfterWake(w) ==
  /\ pc[w] = "rewoken"
  /\ \/ batches # <<>> /\ Take(w, "eval")
     \/ batches = <<>> /\ openCount > 1 /\ openCount' = openCount - 1 /\ pc' = [pc EXCEPT ![w] = "wait"]
        /\ UNCHANGED <<open, batches, pending, blk>>
     \/ batches = <<>> /\ openCount <= 1 /\ open' = FALSE /\ openCount' = 0 /\ pc' = WakeAll(w, "done")
        /\ UNCHANGED <<batches, pending, blk>>
  /\ UNCHANGED <<gi, cur, idx, term, generated, disc, total, visits>>

-----------------------------------------------------------------------------
(* check_block: take the next job.  Queues are sequences whose END is the back of the VecDeque: both strategies
   pop_back; BFS push_front (so the back is the oldest), DFS push_back (so the back is the newest). *)
RECURSIVE PropLoop(_, _, _, _, _, _)
(* returns [disc, eb, awaiting] after examining properties i..n for job j *)
PropLoop(i, j, d, eb, awaiting, seen) ==
  IF i > Len(g.props) THEN [disc |-> d, eb |-> eb, awaiting |-> awaiting]
  ELSE LET p == g.props[i] IN
       IF p.name \in seen THEN PropLoop(i + 1, j, d, eb, awaiting, seen)          \* has a discovery already: skipped
       ELSE CASE p.kind = "always" ->
                   IF ~SatAt(p, j.node) THEN PropLoop(i + 1, j, d \cup {<<p.name, j.path>>}, eb, awaiting, seen)
                   ELSE PropLoop(i + 1, j, d, eb, TRUE, seen)
              [] p.kind = "sometimes" ->
                   IF SatAt(p, j.node) THEN PropLoop(i + 1, j, d \cup {<<p.name, j.path>>}, eb, awaiting, seen)
                   ELSE PropLoop(i + 1, j, d, eb, TRUE, seen)
              [] p.kind = "eventually" ->
                   PropLoop(i + 1, j, d, IF SatAt(p, j.node) THEN eb \ {i} ELSE eb, TRUE, seen)

Eval(w) ==
  /\ pc[w] = "eval"
  /\ IF blk[w] = 0 \/ pending[w] = <<>>
     THEN pc' = [pc EXCEPT ![w] = "after"] /\ UNCHANGED <<pending, cur, idx, term, blk, disc, visits>>
     ELSE LET q == pending[w]
              j == q[Len(q)]
              r == PropLoop(1, j, disc, j.eb, FALSE, Discovered(disc))
          IN IF TargetDepth > 0 /\ j.depth >= TargetDepth
             THEN \* past the depth limit: the job is dropped without being evaluated
                  /\ pending' = [pending EXCEPT ![w] = SubSeq(q, 1, Len(q) - 1)]
                  /\ blk' = [blk EXCEPT ![w] = @ - 1]
                  /\ UNCHANGED <<cur, idx, term, disc, visits, pc>>
             ELSE
             /\ pending' = [pending EXCEPT ![w] = SubSeq(q, 1, Len(q) - 1)]
             /\ blk' = [blk EXCEPT ![w] = @ - 1]
             /\ visits' = Append(visits, [node |-> j.node, path |-> j.path])
             /\ disc' = r.disc
             /\ IF r.awaiting
                THEN /\ cur' = [cur EXCEPT ![w] = [j EXCEPT !.eb = r.eb]] /\ idx' = [idx EXCEPT ![w] = 1]
                     /\ term' = [term EXCEPT ![w] = TRUE] /\ pc' = [pc EXCEPT ![w] = "expand"]
                ELSE \* every property has a discovery: check_block returns
                     /\ pc' = [pc EXCEPT ![w] = "after"] /\ UNCHANGED <<cur, idx, term>>
  /\ UNCHANGED <<gi, open, openCount, batches, generated, total>>

(* one successor per step *)
Expand(w) ==
  /\ pc[w] = "expand"
  /\ LET j == cur[w]  sl == SuccList(g, j.node) IN
     IF idx[w] > Len(sl)
     THEN \* all successors handled: a terminal state yields the eventually-discoveries for the bits still set
          /\ disc' = IF term[w]
                     THEN LET names == {g.props[i].name : i \in j.eb} IN
                          IF KeepFirst THEN disc \cup {<<nm, j.path>> : nm \in names \ Discovered(disc)}
                          ELSE {p \in disc : p[1] \notin names} \cup {<<nm, j.path>> : nm \in names}
                     ELSE disc
          /\ pc' = [pc EXCEPT ![w] = "eval"]
          /\ UNCHANGED <<pending, idx, term, generated, total>>
     ELSE LET t == sl[idx[w]] IN
          /\ idx' = [idx EXCEPT ![w] = @ + 1]
          /\ IF t = 0 \/ ~InB(g, t)
             THEN UNCHANGED <<pending, term, generated, total>>                \* ignored action / outside the boundary
             ELSE /\ total' = total + 1
                  /\ term' = [term EXCEPT ![w] = FALSE]
                  /\ IF Key(t) \in generated THEN UNCHANGED <<pending, generated>>
                     ELSE /\ generated' = generated \cup {Key(t)}            \* atomic insert-if-absent
                          /\ LET t2 == IF SymEnqueueRep THEN Key(t) ELSE t
                                 nj == Job(t2, Append(j.path, t2), j.eb, j.depth + 1) IN
                             pending' = [pending EXCEPT ![w] = IF Strategy = "bfs" THEN <<nj>> \o @ ELSE Append(@, nj)]
          /\ UNCHANGED <<disc, pc>>
  /\ UNCHANGED <<gi, open, openCount, batches, cur, blk, visits>>

(* after the block: finish_when(All), then the market visit (split_and_push) *)
After(w) ==
  /\ pc[w] = "after"
  /\ IF Matches(Finish, Discovered(disc), g.props) \/ (TargetStates > 0 /\ total >= TargetStates)
     THEN DropBroker(w) /\ UNCHANGED blk
     ELSE IF ~open
          THEN /\ pending' = [pending EXCEPT ![w] = <<>>] /\ pc' = [pc EXCEPT ![w] = "pop"]
               /\ UNCHANGED <<open, openCount, batches, blk>>
          ELSE LET q == pending[w]
                   pieces == 1 + Min2(N - openCount, Len(q))
                   size == Len(q) \div pieces
                   nb == IF size = 0 THEN 0 ELSE pieces - 1
                   keep == Len(q) - nb * size
                   waiters == {v \in W : pc[v] = "wait"}
               IN /\ batches' = batches \o [k \in 1..nb |-> SubSeq(q, Len(q) - k * size + 1, Len(q) - (k - 1) * size)]
                  /\ pending' = [pending EXCEPT ![w] = SubSeq(q, 1, keep)]
                  /\ blk' = [blk EXCEPT ![w] = BlockSize]
                  /\ \E woken \in SUBSET waiters :
                        /\ Cardinality(woken) = Min2(nb, Cardinality(waiters))
                        /\ pc' = [v \in W |-> IF v = w THEN (IF keep = 0 THEN "pop" ELSE "eval")
                                              ELSE IF v \in woken THEN "woken" ELSE pc[v]]
                  /\ UNCHANGED <<open, openCount>>
  /\ UNCHANGED <<gi, cur, idx, term, generated, disc, total, visits>>

Next == \E w \in W : Pop(w) \/ Wake(w) \/ AfterWake(w) \/ Eval(w) \/ Expand(w) \/ After(w)
Spec == Init /\ [][Next]_vars /\ \A w \in W : WF_vars(Pop(w) \/ Wake(w) \/ AfterWake(w) \/ Eval(w) \/ Expand(w) \/ After(w))

-----------------------------------------------------------------------------
AllDone == \A w \in W : pc[w] = "done"
ActsOf(path) == [i \in 1..(Len(path) - 1) |-> CHOOSE k \in DOMAIN SuccList(g, path[i]) : SuccList(g, path[i])[k] = path[i + 1]]
(* the behaviour so far, in the shape of a recorded real run *)
RunRecord ==
  [cfg |-> [strategy |-> Strategy, threads |-> N, symmetry |-> Symmetry, finish |-> Finish,
            target_states |-> TargetStates, target_depth |-> TargetDepth, timeout_ms |-> 0],
   visits |-> [i \in DOMAIN visits |-> [node |-> visits[i].node, path |-> visits[i].path, acts |-> ActsOf(visits[i].path)]],
   chooser |-> <<>>, chooser2 |-> <<>>,
   done |-> [joined |-> TRUE, join_panicked |-> FALSE, spawn_panicked |-> FALSE, disc_panicked |-> FALSE,
             is_done |-> TRUE, unique |-> Cardinality(generated), total |-> total, max_depth |-> 0, wall_ms |-> 0,
             assert_panicked |-> FALSE,
             discoveries |-> LET S == disc
                                 RECURSIVE F(_) F(T) == IF T = {} THEN <<>> ELSE LET x == CHOOSE y \in T : TRUE IN
                                                           <<[name |-> x[1], states |-> x[2], acts |-> ActsOf(x[2])]>> \o F(T \ {x})
                             IN F(S)]]

Judged == {"no_panic", "paths", "subset", "once", "complete", "verdicts", "witness", "ev_sound", "ev_exact", "bfs_order", "shortest", "stop_reason",
           "target", "target_real", "depth_max", "depth_min", "sym_cover"}
(* at the end of every behaviour the observation passes exactly the checks real runs must pass *)
EndOK == AllDone => (Failed(g, RunRecord) \cap Judged) = {}
(* C03 at every moment: whatever is in the discovery map is a genuine witness *)
WitnessAlways == \A p \in disc : ValidWitness(g, PropNamed(g, p[1]), p[2], FALSE)
OneDiscoveryPerName == \A p, q \in disc : p[1] = q[1] => p = q
(* one line per finished behaviour: what a single-threaded real run must look like if the code still follows this
   spec step by step (used to detect SPEC-DRIFT, not violations) *)
EmitRun == AllDone => PrintT(<<"RUN", ToJson([gi |-> gi, strategy |-> Strategy, visits |-> [i \in DOMAIN visits |-> visits[i].node],
                                                discoveries |-> {[name |-> p[1], states |-> p[2]] : p \in disc},
                                                total |-> total, unique |-> Cardinality(generated)])>>)
NoStuck == (ENABLED Next) \/ AllDone
Termination == <>[]AllDone
=============================================================================
