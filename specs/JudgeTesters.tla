----------------------------- MODULE JudgeTesters -----------------------------
(* TLC as judge of the real LinearizabilityTester / SequentialConsistencyTester on the
   TLC-generated histories (C08, C14).  Env: RECS (ndjson of replay results), OUT. *)
EXTENDS Consistency, Json, IOUtils, TLC

Recs == ndJsonDeserialize(IOEnv.RECS)

(* on_invoke/on_return return Ok up to the first ill-formed event and Err from it on *)
ExpectedCalls(h) ==
  LET b == IllFormedAt(h) IN [i \in 1..Len(h) |-> b = 0 \/ i < b]

NOps(h) == Cardinality(OpIds(WFPrefix(h)))

Checks(r) ==
  LET h    == r.h
      kind == r.kind
      init == InitObj(kind)
      wf   == WellFormed(h)
      lin  == IsLinearizable(kind, init, h)
      sc   == IsSeqConsistent(kind, init, h)
      bad  == "panicked" \in DOMAIN r
  IN
  IF bad THEN [no_panic |-> [a |-> TRUE, c |-> FALSE]]
  ELSE
  [ no_panic |-> [a |-> TRUE, c |-> TRUE],
    \* ---- C08 ----
    lin_verdict |-> [a |-> wf, c |-> wf => (r.lin.consistent <=> lin)],
    lin_ser |-> [a |-> wf /\ r.lin.has_ser,
                 c |-> (wf /\ r.lin.has_ser) => ValidSerialization("lin", kind, init, h, r.lin.ser)],
    lin_ser_iff |-> [a |-> TRUE, c |-> r.lin.has_ser <=> r.lin.consistent],
    lin_illformed |-> [a |-> ~wf, c |-> ~wf => (~r.lin.consistent /\ ~r.lin.has_ser)],
    lin_calls |-> [a |-> Len(h) > 0, c |-> r.lin.calls = ExpectedCalls(h)],
    lin_len |-> [a |-> wf, c |-> wf => r.lin.len = NOps(h)],
    \* ---- C14 ----
    sc_verdict |-> [a |-> wf, c |-> wf => (r.sc.consistent <=> sc)],
    sc_ser |-> [a |-> wf /\ r.sc.has_ser,
                c |-> (wf /\ r.sc.has_ser) => ValidSerialization("sc", kind, init, h, r.sc.ser)],
    sc_ser_iff |-> [a |-> TRUE, c |-> r.sc.has_ser <=> r.sc.consistent],
    sc_illformed |-> [a |-> ~wf, c |-> ~wf => (~r.sc.consistent /\ ~r.sc.has_ser)],
    sc_calls |-> [a |-> Len(h) > 0, c |-> r.sc.calls = ExpectedCalls(h)],
    sc_len |-> [a |-> wf, c |-> wf => r.sc.len = NOps(h)],
    \* on_invret(op, ret) = on_invoke(op) followed by on_return(ret): same results, same verdict, same value
    lin_invret |-> [a |-> Len(h) > 0, c |-> r.lin2.calls = ExpectedCalls(h) /\ (r.lin2.consistent <=> r.lin.consistent) /\ (wf => r.lin2.eq)],
    sc_invret |-> [a |-> Len(h) > 0, c |-> r.sc2.calls = ExpectedCalls(h) /\ (r.sc2.consistent <=> r.sc.consistent) /\ (wf => r.sc2.eq)],
    lin_implies_sc |-> [a |-> r.lin.consistent, c |-> r.lin.consistent => r.sc.consistent],
    clone_isolated |-> [a |-> Len(h) > 0, c |-> r.parent_before = r.parent_after /\ r.clone_eq_replay]
  ]

Judged ==
  [ i \in DOMAIN Recs |->
      LET k == Checks(Recs[i]) IN
      [idx |-> i, failed |-> {f \in DOMAIN k : ~k[f].c}, applied |-> {f \in DOMAIN k : k[f].a},
       wf |-> WellFormed(Recs[i].h), lin |-> IsLinearizable(Recs[i].kind, InitObj(Recs[i].kind), Recs[i].h),
       sc |-> IsSeqConsistent(Recs[i].kind, InitObj(Recs[i].kind), Recs[i].h)] ]

ASSUME JsonSerialize(IOEnv.OUT, [n |-> Len(Recs), judged |-> Judged])
=============================================================================
