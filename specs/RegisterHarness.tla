---------------------------- MODULE RegisterHarness ----------------------------
(***************************************************************************)
(* C18 (second half): the register test harness of stateright --           *)
(* RegisterActor clients + the record_invocations / record_returns hooks --*)
(* around an ARBITRARY server that answers each request at most once, in   *)
(* any order, with any value, or never.                                    *)
(*                                                                         *)
(* Client c (Id >= S): on start (PutCount > 0) sends Put(1*c, 'A'+k) to    *)
(* server c % S; on the awaited PutOk sends the next Put ((n+1)*c, 'Z'-k)  *)
(* or, after PutCount puts, Get((n+1)*c); on the awaited GetOk it stops.   *)
(* Replies that are not awaited are ignored.                               *)
(* record_invocations: a sent Put/Get = invocation by its sender;          *)
(* record_returns: a delivered PutOk/GetOk = return at its receiver.       *)
(*                                                                         *)
(* The module gives (1) the system as a specification that TLC explores    *)
(* for all interleavings (MCRegisterHarness) and (2) operators over a LOG  *)
(* of client-visible messages with which TLC judges every reachable state  *)
(* of the real model (JudgeRegister).                                      *)
(* log entry: [dir (1 = delivered, 2 = sent), src, dst, kind (1 Put, 2 Get,*)
(* 3 PutOk, 4 GetOk, 5 PutFail -- write-once variant), req, val]           *)
(***************************************************************************)
EXTENDS Consistency, Integers

ValA(c, S) == 65 + (c - S)           \* 'A' + k
ValZ(c, S) == 90 - (c - S)           \* 'Z' - k

(* ---------------- operators over a log (used by the judge) ---------------- *)
IsReq(e) == e.dir = 2 /\ e.kind \in {1, 2}
IsRep(e) == e.dir = 1 /\ e.kind \in {3, 4, 5}        \* 5 = PutFail (write-once register harness)
(* the history the hooks must have recorded *)
RECURSIVE HistOf(_)
HistOf(log) ==
  IF log = <<>> THEN <<>>
  ELSE LET e == Head(log)
           ev == IF IsReq(e) THEN <<[k |-> "inv", t |-> e.src, x |-> IF e.kind = 1 THEN Op("w", e.val) ELSE Op("r", 0)]>>
                 ELSE IF IsRep(e) THEN <<[k |-> "ret", t |-> e.dst, x |-> IF e.kind = 3 THEN Ret("wok", 0) ELSE IF e.kind = 5 THEN Ret("wfail", 0) ELSE Ret("rok", e.val)]>>
                 ELSE <<>>
       IN ev \o HistOf(Tail(log))

SelectSeq2(s, T(_)) == LET RECURSIVE F(_) F(q) == IF q = <<>> THEN <<>> ELSE (IF T(Head(q)) THEN <<Head(q)>> ELSE <<>>) \o F(Tail(q)) IN F(s)
(* what client c sees: its own requests and the replies delivered to it *)
Visible(log, c) == LET T(e) == (IsReq(e) /\ e.src = c) \/ (IsRep(e) /\ e.dst = c) IN SelectSeq2(log, T)

(* the client protocol as a predicate on what the client sees *)
ProtocolOK(log, c, S, PutCount) ==
  LET v == Visible(log, c)
      reqs == LET T(e) == IsReq(e) IN SelectSeq2(v, T)
  IN /\ \A i \in DOMAIN reqs :
          /\ reqs[i].req = i * c                                      \* fresh request ids: k * client id
          /\ reqs[i].dst = (c + (i - 1)) % S
          /\ IF i <= PutCount THEN reqs[i].kind = 1 /\ reqs[i].val = (IF i = 1 THEN ValA(c, S) ELSE ValZ(c, S))
                              ELSE reqs[i].kind = 2
     /\ Len(reqs) <= PutCount + 1
     /\ (PutCount = 0 => reqs = <<>>)
     \* at most one operation outstanding: requests and the replies the client accepts alternate
     /\ \A i \in DOMAIN v : IsReq(v[i]) /\ i > 1 =>
            \E j \in 1..(i - 1) : IsRep(v[j]) /\ v[j].req = v[i].req - c /\ \A m \in (j + 1)..(i - 1) : ~IsReq(v[m])

(* abstract content of a tester: per thread the completed operations and the one in flight *)
TesterOf(h) ==
  LET ts == {h[i].t : i \in DOMAIN h}
      ops(t) == {i \in OpIds(h) : h[i].t = t}
      SortedIdx(S) == LET RECURSIVE F(_) F(T) == IF T = {} THEN <<>> ELSE LET m == CHOOSE x \in T : \A y \in T : x <= y IN <<m>> \o F(T \ {m}) IN F(S)
  IN {[t |-> t,
       completed |-> LET ix == SortedIdx({i \in ops(t) : RetIdx(h, i) # 0}) IN [k \in DOMAIN ix |-> [op |-> h[ix[k]].x, ret |-> h[RetIdx(h, ix[k])].x]],
       inflight |-> LET ix == SortedIdx({i \in ops(t) : RetIdx(h, i) = 0}) IN [k \in DOMAIN ix |-> h[ix[k]].x]] : t \in ts}
=============================================================================
