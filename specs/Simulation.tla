------------------------------ MODULE Simulation ------------------------------
(***************************************************************************)
(* The simulation checker (checker/simulation.rs) for one thread: repeated *)
(* random walks from an initial state.  The chooser is nondeterministic    *)
(* here, so TLC explores EVERY sequence of choices for up to MaxTraces     *)
(* consecutive traces (later traces see the discoveries of earlier ones).  *)
(*                                                                         *)
(* One trace: pick an in-boundary initial state; loop: depth limit -> the  *)
(* trace is abandoned (nothing is concluded); record the state; a state    *)
(* seen before on this trace closes a cycle -> the trace ends; visit;      *)
(* property loop; choose among the not yet tried actions until one yields  *)
(* a successor inside the boundary (ignored actions and successors outside *)
(* the boundary are skipped); none left -> the trace ends.  When a trace   *)
(* ends, every eventually-bit still set yields a discovery -- unless the   *)
(* property already has one.                                               *)
(*                                                                         *)
(* As-found variants kept as failing mutants:                              *)
(*   BoundaryEnds = TRUE  a successor outside the boundary ends the trace  *)
(*   KeepFirst = FALSE    an existing discovery is overwritten             *)
(***************************************************************************)
EXTENDS CheckerObs, Json, IOUtils, TLC

CONSTANTS MaxTraces, TargetDepth, KeepFirst, BoundaryEnds
Graphs == ndJsonDeserialize(IOEnv.GRAPHS)

VARIABLES gi, tr, pc, path, seen, eb, cur, untried, disc, count
vars == <<gi, tr, pc, path, seen, eb, cur, untried, disc, count>>
g == Graphs[gi]
EvBits == {i \in DOMAIN g.props : g.props[i].kind = "eventually"}
Discovered(d) == {p[1] : p \in d}
AllDisc(d) == \A i \in DOMAIN g.props : g.props[i].name \in Discovered(d)
Inits == IF BoundaryEnds THEN InitSet(g) ELSE InitB(g)

Init ==
  /\ gi \in DOMAIN Graphs
  /\ tr = 1 /\ pc = "start" /\ path = <<>> /\ seen = {} /\ eb = {} /\ cur = 0 /\ untried = {} /\ disc = {} /\ count = 0

RECURSIVE PropLoop(_, _, _, _, _)
PropLoop(i, d, e, awaiting, known) ==
  IF i > Len(g.props) THEN [disc |-> d, eb |-> e, awaiting |-> awaiting]
  ELSE LET p == g.props[i] IN
       IF p.name \in known THEN PropLoop(i + 1, d, e, awaiting, known)
       ELSE CASE p.kind = "always" ->
                   IF ~SatAt(p, cur) THEN PropLoop(i + 1, d \cup {<<p.name, path>>}, e, awaiting, known) ELSE PropLoop(i + 1, d, e, TRUE, known)
              [] p.kind = "sometimes" ->
                   IF SatAt(p, cur) THEN PropLoop(i + 1, d \cup {<<p.name, path>>}, e, awaiting, known) ELSE PropLoop(i + 1, d, e, TRUE, known)
              [] p.kind = "eventually" -> PropLoop(i + 1, d, IF SatAt(p, cur) THEN e \ {i} ELSE e, TRUE, known)

EndTrace(d) ==   \* the tail of check_trace_from_initial
  LET names == {g.props[i].name : i \in eb} IN
  IF KeepFirst THEN d \cup {<<nm, path>> : nm \in names \ Discovered(d)}
  ELSE {p \in d : p[1] \notin names} \cup {<<nm, path>> : nm \in names}

NextTrace == tr' = tr + 1 /\ pc' = "start" /\ path' = <<>> /\ seen' = {} /\ eb' = {} /\ cur' = 0 /\ untried' = {}

Start ==
  /\ pc = "start" /\ tr <= MaxTraces /\ ~AllDisc(disc)
  /\ IF Inits = {} THEN pc' = "halt" /\ UNCHANGED <<tr, path, seen, eb, cur, untried, disc, count>>
     ELSE \E s \in Inits : cur' = s /\ eb' = EvBits /\ path' = <<>> /\ seen' = {} /\ untried' = {} /\ pc' = "top"
                          /\ UNCHANGED <<tr, disc, count>>
  /\ UNCHANGED gi

Top ==   \* top of the loop for the current state
  /\ pc = "top"
  /\ IF TargetDepth > 0 /\ Len(path) >= TargetDepth
     THEN NextTrace /\ UNCHANGED <<disc, count>>                                 \* `return': nothing is concluded
     ELSE IF BoundaryEnds /\ ~InB(g, cur)
     THEN disc' = EndTrace(disc) /\ NextTrace /\ UNCHANGED count                 \* as found: leaving the boundary ends the trace
     ELSE LET p2 == Append(path, cur) IN
          IF cur \in seen
          THEN \* a loop: the path includes the repeated state
               /\ disc' = LET names == {g.props[i].name : i \in eb} IN
                          IF KeepFirst THEN disc \cup {<<nm, p2>> : nm \in names \ Discovered(disc)}
                          ELSE {p \in disc : p[1] \notin names} \cup {<<nm, p2>> : nm \in names}
               /\ NextTrace /\ UNCHANGED count
          ELSE /\ path' = p2 /\ seen' = seen \cup {cur} /\ count' = count + 1
               /\ pc' = "props" /\ UNCHANGED <<tr, eb, cur, untried, disc>>
  /\ UNCHANGED gi

Props ==
  /\ pc = "props"
  /\ LET r == PropLoop(1, disc, eb, FALSE, Discovered(disc)) IN
     /\ disc' = IF r.awaiting THEN r.disc
                ELSE LET names == {g.props[i].name : i \in r.eb} IN      \* all discovered: `break', then the tail
                     IF KeepFirst THEN r.disc \cup {<<nm, path>> : nm \in names \ Discovered(r.disc)}
                     ELSE {p \in r.disc : p[1] \notin names} \cup {<<nm, path>> : nm \in names}
     /\ IF r.awaiting
        THEN eb' = r.eb /\ untried' = DOMAIN SuccList(g, cur) /\ pc' = "choose" /\ UNCHANGED <<tr, path, seen, cur>>
        ELSE NextTrace
  /\ UNCHANGED <<gi, count>>

Choose ==
  /\ pc = "choose"
  /\ IF untried = {}
     THEN disc' = EndTrace(disc) /\ NextTrace /\ UNCHANGED count                 \* no action left: the path is maximal
     ELSE \E a \in untried :
            LET t == SuccList(g, cur)[a] IN
            IF t = 0 \/ (~BoundaryEnds /\ ~InB(g, t))
            THEN untried' = untried \ {a} /\ UNCHANGED <<tr, pc, path, seen, eb, cur, disc, count>>   \* try another
            ELSE cur' = t /\ untried' = {} /\ pc' = "top" /\ UNCHANGED <<tr, path, seen, eb, disc, count>>
  /\ UNCHANGED gi

Next == Start \/ Top \/ Props \/ Choose
Spec == Init /\ [][Next]_vars

(* C03 / C11 for the simulation checker, at every state *)
WitnessAlways == \A p \in disc : ValidWitness(g, PropNamed(g, p[1]), p[2], TRUE)
EvSound == \A p \in disc : PropNamed(g, p[1]).kind = "eventually" => EvCex(g, PropNamed(g, p[1]))
PathsReal == path = <<>> \/ ValidPath(g, path)
=============================================================================
