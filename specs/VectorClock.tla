----------------------------- MODULE VectorClock -----------------------------
(***************************************************************************)
(* C20 (and the VectorClock part of C04): a vector clock denotes a         *)
(* function Nat -> Nat with finite support; its concrete representation is *)
(* a sequence (index k of the code = position k+1 here) in which trailing  *)
(* zeros are insignificant.                                                *)
(***************************************************************************)
EXTENDS Naturals, Sequences

Max2(a, b) == IF a >= b THEN a ELSE b
At(c, i) == IF i \in DOMAIN c THEN c[i] ELSE 0          \* implicit zeros
Span(a, b) == 1..Max2(Len(a), Len(b))

Leq(a, b) == \A i \in Span(a, b) : At(a, i) <= At(b, i)
EqV(a, b) == \A i \in Span(a, b) : At(a, i) = At(b, i)   \* equality up to trailing zeros
(* result of partial_cmp *)
Cmp(a, b) == IF EqV(a, b) THEN "EQ" ELSE IF Leq(a, b) THEN "LT" ELSE IF Leq(b, a) THEN "GT" ELSE "NONE"
Merge(a, b) == [i \in Span(a, b) |-> Max2(At(a, i), At(b, i))]
(* increment component k (0-based, as in the code) *)
Inc(a, k) == [i \in 1..Max2(Len(a), k + 1) |-> At(a, i) + (IF i = k + 1 THEN 1 ELSE 0)]
(* canonical form: what may be fed to the hasher *)
RECURSIVE Canon(_)
Canon(a) == IF a = <<>> THEN a ELSE IF a[Len(a)] = 0 THEN Canon(SubSeq(a, 1, Len(a) - 1)) ELSE a

(* all representations with <= L components, each <= M *)
RECURSIVE SeqsUpTo(_, _)
SeqsUpTo(L, M) == IF L = 0 THEN {<<>>} ELSE LET S == SeqsUpTo(L - 1, M) IN S \cup {Append(s, v) : s \in {t \in S : Len(t) = L - 1}, v \in 0..M}

(* ---- the laws, as theorems over a finite domain D (checked by TLC) ---- *)
Reflexive(D)     == \A a \in D : Leq(a, a) /\ Cmp(a, a) = "EQ"
Antisymmetric(D) == \A a, b \in D : (Leq(a, b) /\ Leq(b, a)) => EqV(a, b)
Transitive(D)    == \A a, b, c \in D : (Leq(a, b) /\ Leq(b, c)) => Leq(a, c)
MergeIsLub(D)    == \A a, b \in D :
                       LET m == Merge(a, b) IN
                       /\ Leq(a, m) /\ Leq(b, m)
                       /\ \A c \in D : (Leq(a, c) /\ Leq(b, c)) => Leq(m, c)
IncStrict(D, K)  == \A a \in D : \A k \in 0..K : Cmp(a, Inc(a, k)) = "LT"
CanonSound(D)    == \A a, b \in D : EqV(a, b) <=> Canon(a) = Canon(b)
CmpConsistent(D) == \A a, b \in D :
                       /\ (Cmp(a, b) = "LT") <=> (Cmp(b, a) = "GT")
                       /\ (Cmp(a, b) = "EQ") <=> EqV(a, b)
=============================================================================
