---------------------------- MODULE JobMarketTrace ----------------------------
(***************************************************************************)
(* Trace validation of the REAL job market (C05, C12): the event log       *)
(* emitted by the cfg(getong_stateright_verif) hooks of job_market.rs --   *)
(* one event per critical section, written inside it, ordered by a         *)
(* sequence number taken under the market lock -- is consumed line by line.*)
(* Each event must be an enabled step of the market protocol below (the    *)
(* lock-level view of JobMarket.tla) and the logged post-state must equal  *)
(* the state the protocol step produces.                                   *)
(*                                                                         *)
(* Env: EVENTS = ndjson, one event per line:                               *)
(*   [run, ev, thread, arg1, arg2, open, thread_count, open_count, batches]*)
(* Events of several markets (runs) are concatenated; every market starts  *)
(* with a "New" event.  OUT receives the list of rejected events.          *)
(* A rejected event is recorded and the logged post-state is adopted, so   *)
(* that the REST of the trace is still checked.                            *)
(***************************************************************************)
EXTENDS Naturals, Sequences, FiniteSets, Json, IOUtils, TLC

Events == ndJsonDeserialize(IOEnv.EVENTS)

VARIABLES l,        \* next event
          st,       \* market state: [open, n, openCount, batches (seq of sizes), waiting (set of threads), pushed, got, cleared]
          bad,      \* rejected events: [l, ev, why]
          cov       \* coverage: set of <<event kind, interesting circumstance>>
vars == <<l, st, bad, cov>>

Min2(a, b) == IF a <= b THEN a ELSE b
Dec(n) == IF n > 0 THEN n - 1 ELSE 0
RECURSIVE Sum(_)
Sum(q) == IF q = <<>> THEN 0 ELSE Head(q) + Sum(Tail(q))
Rep(k, x) == [i \in 1..k |-> x]

Init == /\ l = 1
        /\ st = [open |-> TRUE, n |-> 0, openCount |-> 0, batches |-> <<>>, waiting |-> {}, pushed |-> 0, got |-> 0, cleared |-> 0]
        /\ bad = <<>>
        /\ cov = {}

(* Step(s, e) = [pre: set of violated preconditions, post: expected post-state] *)
Step(s, e) ==
  CASE e.ev = "New" ->
         [pre |-> {},
          post |-> [open |-> TRUE, n |-> e.arg1, openCount |-> e.arg1, batches |-> <<>>, waiting |-> {},
                    pushed |-> 0, got |-> 0, cleared |-> 0]]
    [] e.ev = "Push" ->
         [pre |-> IF s.open THEN {} ELSE {"push_into_closed_market"},
          post |-> [s EXCEPT !.batches = Append(@, e.arg1), !.pushed = @ + e.arg1]]
    [] e.ev = "PushClosed" ->
         [pre |-> IF ~s.open THEN {} ELSE {"push_refused_while_open"}, post |-> s]
    [] e.ev = "PopClosed" ->
         [pre |-> IF ~s.open THEN {} ELSE {"pop_reports_closed_while_open"}, post |-> s]
    [] e.ev = "PopGot" ->
         [pre |-> (IF s.batches # <<>> THEN {} ELSE {"pop_got_without_batch"})
                   \cup (IF s.batches # <<>> /\ s.batches[Len(s.batches)] # e.arg1 THEN {"batch_size_changed_in_market"} ELSE {})
                   \cup (IF e.thread \in s.waiting THEN {"got_while_still_waiting"} ELSE {}),
          post |-> [s EXCEPT !.batches = IF @ = <<>> THEN @ ELSE SubSeq(@, 1, Len(@) - 1), !.got = @ + e.arg1]]
    [] e.ev = "PopWait" ->
         [pre |-> (IF s.batches = <<>> THEN {} ELSE {"waits_although_work_is_available"})
                   \cup (IF s.openCount >= 2 THEN {} ELSE {"last_active_worker_goes_to_sleep"}),
          post |-> [s EXCEPT !.openCount = Dec(@), !.waiting = @ \cup {e.thread}]]
    [] e.ev = "PopWake" ->
         [pre |-> IF e.thread \in s.waiting THEN {} ELSE {"wake_without_wait"},
          post |-> [s EXCEPT !.openCount = @ + 1, !.waiting = @ \ {e.thread}]]
    [] e.ev = "PopLastClose" ->
         [pre |-> (IF s.batches = <<>> THEN {} ELSE {"closes_although_work_is_available"})
                   \cup (IF s.openCount <= 1 THEN {} ELSE {"closes_while_others_are_active"}),
          post |-> [s EXCEPT !.open = FALSE, !.openCount = 0]]
    [] e.ev = "Split" ->
         LET pieces == 1 + Min2(IF s.n >= s.openCount THEN s.n - s.openCount ELSE 0, e.arg1)
             size   == e.arg1 \div pieces
             nb     == IF size = 0 THEN 0 ELSE pieces - 1
         IN [pre |-> (IF s.open THEN {} ELSE {"split_into_closed_market"})
                      \cup (IF e.arg2 + nb * size = e.arg1 THEN {} ELSE {"split_lost_or_duplicated_jobs"}),
             post |-> [s EXCEPT !.batches = @ \o Rep(nb, size), !.pushed = @ + nb * size]]
    [] e.ev = "SplitClosed" ->
         [pre |-> IF ~s.open THEN {} ELSE {"split_refused_while_open"}, post |-> s]
    [] e.ev = "Drop" ->
         [pre |-> {},
          post |-> [s EXCEPT !.open = FALSE, !.cleared = @ + Sum(s.batches), !.batches = <<>>, !.openCount = Dec(@)]]
    [] e.ev = "TimeoutPoll" ->
         [pre |-> {}, post |-> IF e.arg1 = 1 THEN [s EXCEPT !.open = FALSE] ELSE s]
    [] e.ev = "TimeoutSleepBegin" ->
         [pre |-> IF e.arg1 = 0 THEN {} ELSE {"timeout_thread_sleeps_holding_the_market_lock"}, post |-> s]
    [] e.ev = "TimeoutSleepEnd" -> [pre |-> {}, post |-> s]
    [] e.ev = "End" ->
         \* the run has been joined: nobody may still be asleep, and no work may be left in an open market
         [pre |-> (IF s.waiting = {} THEN {} ELSE {"worker_still_asleep_after_join"})
                   \cup (IF s.open /\ s.batches # <<>> THEN {"work_left_in_open_market"} ELSE {})
                   \cup (IF s.pushed = s.got + s.cleared + Sum(s.batches) THEN {} ELSE {"jobs_not_conserved"}),
          post |-> s]
    [] OTHER -> [pre |-> {"unknown_event"}, post |-> s]

Locked(e) == e.ev \notin {"TimeoutSleepBegin", "TimeoutSleepEnd", "End"}
PostMismatch(e, p) ==
  IF ~Locked(e) THEN {}
  ELSE (IF e.open = p.open THEN {} ELSE {"post_open"})
       \cup (IF e.open_count = p.openCount THEN {} ELSE {"post_open_count"})
       \cup (IF e.batches = p.batches THEN {} ELSE {"post_batches"})
       \cup (IF e.thread_count = p.n THEN {} ELSE {"post_thread_count"})

Circumstance(s, e) ==
  CASE e.ev = "PopGot" -> IF ~s.open THEN "from_closed_market" ELSE IF Len(s.batches) > 1 THEN "several_batches" ELSE "one_batch"
    [] e.ev = "PopWait" -> IF Cardinality(s.waiting) > 0 THEN "others_waiting" ELSE "first_waiter"
    [] e.ev = "PopWake" -> IF ~s.open THEN "woken_by_shutdown" ELSE "woken_by_work"
    [] e.ev = "PopLastClose" -> IF s.waiting # {} THEN "wakes_waiters" ELSE "alone"
    [] e.ev = "Split" -> IF s.n > s.openCount THEN "shares_with_waiters" ELSE "nobody_waiting"
    [] e.ev = "Drop" -> IF s.open THEN "closes_open_market" ELSE "already_closed"
    [] e.ev = "TimeoutPoll" -> IF e.arg1 = 1 THEN "expired" ELSE "not_yet"
    [] OTHER -> ""

Consume ==
  /\ l <= Len(Events)
  /\ LET e == Events[l]
         r == Step(st, e)
         why == r.pre \cup PostMismatch(e, r.post)
     IN /\ bad' = IF why = {} THEN bad ELSE Append(bad, [l |-> l, run |-> e.run, ev |-> e.ev, thread |-> e.thread, why |-> why])
        \* resynchronise on the logged state so that the rest of the trace is still validated
        /\ st' = IF Locked(e) /\ why # {}
                 THEN [r.post EXCEPT !.open = e.open, !.openCount = e.open_count, !.batches = e.batches, !.n = e.thread_count]
                 ELSE r.post
        /\ cov' = cov \cup {<<e.ev, Circumstance(st, e)>>}
  /\ l' = l + 1

Finish ==
  /\ l = Len(Events) + 1
  /\ JsonSerialize(IOEnv.OUT, [n |-> Len(Events), bad |-> bad, cov |-> cov])
  /\ l' = l + 1
  /\ UNCHANGED <<st, bad, cov>>

Next == Consume \/ Finish
Spec == Init /\ [][Next]_vars
(* all lines consumed (and the verdict written) *)
Accepted == TLCGet("stats").diameter = Len(Events) + 2
=============================================================================
