----------------------------- MODULE DenseNatMap -----------------------------
(***************************************************************************)
(* C20: a DenseNatMap is a total map on 0..n-1, represented by the sequence *)
(* of its values (key k at position k+1).                                   *)
(***************************************************************************)
EXTENDS Naturals, Sequences, FiniteSets

(* construction from (key, value) pairs in any order: accepted iff the keys
   are exactly 0..n-1, each once *)
KeysOf(pairs) == {pairs[i].k : i \in DOMAIN pairs}
Acceptable(pairs) ==
  /\ KeysOf(pairs) = 0..(Len(pairs) - 1)
  /\ \A i, j \in DOMAIN pairs : i # j => pairs[i].k # pairs[j].k
FromPairs(pairs) == [p \in 1..Len(pairs) |-> (pairs[CHOOSE i \in DOMAIN pairs : pairs[i].k = p - 1]).v]

Get(m, k) == IF k + 1 \in DOMAIN m THEN <<m[k + 1]>> ELSE <<>>      \* Some / None
(* insert: key = len appends, key < len replaces (returning the old value), key > len is an error *)
InsertOk(m, k) == k <= Len(m)
Insert(m, k, v) == IF k = Len(m) THEN Append(m, v) ELSE [m EXCEPT ![k + 1] = v]
Iter(m) == [i \in DOMAIN m |-> [k |-> i - 1, v |-> m[i]]]

(* rewriting under a plan (a permutation of the keys, plan[k+1] = new key of k):
   the value of k moves to plan[k] *)
RewriteMap(plan, m) == [p \in DOMAIN m |-> m[CHOOSE i \in DOMAIN m : plan[i] = p - 1]]
=============================================================================
