----------------------------- MODULE SpawnRuntime -----------------------------
(***************************************************************************)
(* C17: the contract of the UDP actor runtime (actor/spawn.rs), as a trace *)
(* specification over what an instrumented actor and the harness observe:  *)
(*   Start   on_start of actor a                                           *)
(*   Msg     on_msg of actor a (src, payload, state seen)                  *)
(*   Timeout on_timeout of actor a (timer, state seen)                     *)
(*   HSend / HSendGarbage  the harness sends a datagram to an actor        *)
(*   HRecv   the harness receives a datagram from an actor                 *)
(*   End     quiescence                                                    *)
(* Each handler event carries the commands the handler issued (send / set /*)
(* cancel) and a monotonic microsecond clock read at handler ENTRY; harness*)
(* sends are logged before the syscall and receipts after it, so the log   *)
(* order is causally sound and the timer bound below holds in every        *)
(* correct implementation under any OS scheduling.                         *)
(*                                                                         *)
(* State: per actor  started, calls (handler invocations so far = the      *)
(*        state the next handler must be given), armed (timer -> [at, lo]) *)
(*        inflight: bag of datagrams <<dst, src, payload>> (dst/src = actor*)
(*        index, -1 = harness).                                            *)
(***************************************************************************)
EXTENDS Naturals, Integers, Sequences, FiniteSets, Json, IOUtils, TLC

Events == ndJsonDeserialize(IOEnv.EVENTS)

VARIABLES l, st, bad
vars == <<l, st, bad>>

BagAdd(b, x) == IF \E p \in b : p[1] = x THEN {IF p[1] = x THEN <<x, p[2] + 1>> ELSE p : p \in b} ELSE b \cup {<<x, 1>>}
BagHas(b, x) == \E p \in b : p[1] = x
BagDel(b, x) == {IF p[1] = x THEN <<x, p[2] - 1>> ELSE p : p \in b} \ {<<x, 0>>}

Fresh(n) == [started |-> [i \in 0..(n - 1) |-> FALSE], calls |-> [i \in 0..(n - 1) |-> 0],
             armed |-> [i \in 0..(n - 1) |-> {}], inflight |-> {}, n |-> n]

Init == l = 1 /\ st = Fresh(0) /\ bad = <<>>

(* effect of the commands issued by actor a in a handler entered at time us *)
RECURSIVE Cmds(_, _, _, _)
Cmds(s, a, us, cmds) ==
  IF cmds = <<>> THEN s
  ELSE LET c == Head(cmds)
           s1 == CASE c.c = "send"   -> [s EXCEPT !.inflight = BagAdd(@, <<c.to, a, c.p>>)]      \* one datagram per Send
                   [] c.c = "set"    -> [s EXCEPT !.armed[a] = {p \in @ : p[1] # c.t} \cup {<<c.t, us, c.lo>>}]   \* (re-)arm
                   [] c.c = "cancel" -> [s EXCEPT !.armed[a] = {p \in @ : p[1] # c.t}]
                   [] OTHER -> s
       IN Cmds(s1, a, us, Tail(cmds))

Step(s, e) ==
  CASE e.ev = "New" -> [pre |-> {}, post |-> Fresh(e.a)]
    [] e.ev = "Start" ->
         [pre |-> (IF ~s.started[e.a] THEN {} ELSE {"on_start_ran_twice"})
                   \cup (IF s.calls[e.a] = 0 THEN {} ELSE {"handler_before_on_start"})
                   \cup (IF e.id_ok THEN {} ELSE {"wrong_own_id"}),
          post |-> Cmds([s EXCEPT !.started[e.a] = TRUE, !.calls[e.a] = 1], e.a, e.us, e.cmds)]
    [] e.ev = "HSend" -> [pre |-> {}, post |-> [s EXCEPT !.inflight = BagAdd(@, <<e.a, -1, e.payload>>)]]
    [] e.ev = "HSendGarbage" -> [pre |-> {}, post |-> s]          \* an unparsable datagram reaches no handler
    [] e.ev = "Msg" ->
         [pre |-> (IF s.started[e.a] THEN {} ELSE {"on_msg_before_on_start"})
                   \cup (IF BagHas(s.inflight, <<e.a, e.src, e.payload>>) THEN {} ELSE {"on_msg_without_matching_datagram"})
                   \cup (IF e.calls_before = s.calls[e.a] THEN {} ELSE {"handler_got_stale_state"})
                   \cup (IF e.id_ok THEN {} ELSE {"wrong_own_id"}),
          post |-> Cmds([s EXCEPT !.inflight = BagDel(@, <<e.a, e.src, e.payload>>), !.calls[e.a] = e.calls_before + 1], e.a, e.us, e.cmds)]
    [] e.ev = "Timeout" ->
         LET arm == {p \in s.armed[e.a] : p[1] = e.t} IN
         [pre |-> (IF s.started[e.a] THEN {} ELSE {"on_timeout_before_on_start"})
                   \cup (IF arm # {} THEN {} ELSE {"timer_fired_while_not_armed"})
                   \cup (IF arm # {} /\ \E p \in arm : e.us + 1 < p[2] + 1000 * p[3] THEN {"timer_fired_before_lower_bound"} ELSE {})
                   \cup (IF e.calls_before = s.calls[e.a] THEN {} ELSE {"handler_got_stale_state"}),
          post |-> Cmds([s EXCEPT !.armed[e.a] = @ \ arm, !.calls[e.a] = e.calls_before + 1], e.a, e.us, e.cmds)]
    [] e.ev = "HRecv" ->
         [pre |-> IF BagHas(s.inflight, <<-1, e.src, e.payload>>) THEN {} ELSE {"datagram_not_sent_by_any_handler"},
          post |-> [s EXCEPT !.inflight = BagDel(@, <<-1, e.src, e.payload>>)]]
    [] e.ev = "End" ->
         \* quiescence: every datagram was delivered (exactly one per Send)
         [pre |-> (IF s.inflight = {} THEN {} ELSE {"datagram_never_delivered"})
                   \cup (IF \A i \in DOMAIN s.started : s.started[i] THEN {} ELSE {"actor_never_started"}),
          post |-> s]
    [] OTHER -> [pre |-> {"unknown_event"}, post |-> s]

Consume ==
  /\ l <= Len(Events)
  /\ LET e == Events[l]  r == Step(st, e) IN
     /\ bad' = IF r.pre = {} THEN bad ELSE Append(bad, [l |-> l, run |-> e.run, ev |-> e.ev, a |-> e.a, why |-> r.pre])
     /\ st' = r.post
  /\ l' = l + 1
Finish ==
  /\ l = Len(Events) + 1
  /\ JsonSerialize(IOEnv.OUT, [n |-> Len(Events), bad |-> bad])
  /\ l' = l + 1 /\ UNCHANGED <<st, bad>>
Next == Consume \/ Finish
Spec == Init /\ [][Next]_vars
Accepted == TLCGet("stats").diameter = Len(Events) + 2
=============================================================================
