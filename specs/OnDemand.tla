------------------------------- MODULE OnDemand -------------------------------
(***************************************************************************)
(* The on-demand checker with one worker, seen from its control interface  *)
(* (C19): nothing is computed until a state is asked for; check_fingerprint*)
(* of a PENDING state (generated, not yet evaluated) evaluates exactly that*)
(* state and makes its in-boundary successors pending; a request for any   *)
(* other state is dropped; run_to_completion evaluates everything that is  *)
(* reachable.                                                              *)
(* TLC enumerates every request sequence up to MaxReq over the graphs of   *)
(* the corpus and prints, per sequence, the set of evaluated states after  *)
(* each request: these behaviours are replayed into the real               *)
(* spawn_on_demand() and compared step by step (spec -> implementation).   *)
(***************************************************************************)
EXTENDS Explorer, Json, IOUtils
CONSTANT MaxReq
Graphs == ndJsonDeserialize(IOEnv.GRAPHS)
VARIABLES gi, reqs, evaluated, hist
vars == <<gi, reqs, evaluated, hist>>
g == Graphs[gi]
Init == gi \in DOMAIN Graphs /\ reqs = <<>> /\ evaluated = {} /\ hist = <<>>
Request(s) ==
  /\ Len(reqs) < MaxReq
  /\ reqs' = Append(reqs, s)
  /\ evaluated' = IF s \in Pending(g, evaluated) THEN evaluated \cup {s} ELSE evaluated
  /\ hist' = Append(hist, evaluated')
  /\ UNCHANGED gi
Next == \E s \in Nodes(g) : Request(s)
Spec == Init /\ [][Next]_vars
(* what run_to_completion must add, from any point *)
CompletionIsReach == Clo(SuccBF(g), InitB(g) \cup evaluated, InitB(g) \cup evaluated) = Reach(g)
EvaluatedReachable == evaluated \subseteq Reach(g)
OnlyRequested == evaluated \subseteq Range(reqs)
Emit == Len(reqs) = MaxReq => PrintT(<<"OD", ToJson([gi |-> gi, reqs |-> reqs, hist |-> hist])>>)
=============================================================================
