----------------------------- MODULE JudgeRegister -----------------------------
(* TLC as judge of every reachable state of real register-harness models (C18b): the recorded consistency-tester
   history must be well-formed and mirror exactly the client-visible calls and replies, and the clients must follow
   the protocol (one outstanding operation, fresh request ids).  Env: SYSTEMS, RECS, OUT. *)
EXTENDS RegisterHarness, FiniteSets, Json, IOUtils, TLC
Systems == ndJsonDeserialize(IOEnv.SYSTEMS)
Recs    == ndJsonDeserialize(IOEnv.RECS)
IsSummary(r) == "summary" \in DOMAIN r
Rng(f) == {f[i] : i \in DOMAIN f}

Checks(r) ==
  LET sys == Systems[r.sys]
      S == sys.servers
      log == r.state.log
      h == HistOf(log)
      clients == S..(S + sys.clients - 1)
      lastReq(c) == LET v == Visible(log, c)  ix == {i \in DOMAIN v : IsReq(v[i])} IN
                    IF ix = {} THEN 0 ELSE v[CHOOSE i \in ix : \A j \in ix : j <= i].req
      outstanding(c) == \E i \in InFlight(h) : h[i].t = c
  IN
  [ protocol |-> \A c \in clients : ProtocolOK(log, c, S, sys.put_count),
    one_outstanding |-> \A c \in clients : Cardinality({i \in InFlight(h) : h[i].t = c}) <= 1,
    wellformed |-> WellFormed(h) /\ r.state.tester.valid,
    mirrors |-> WellFormed(h) => ({[t |-> x.t, completed |-> x.completed, inflight |-> x.inflight] : x \in Rng(r.state.tester.threads)} = TesterOf(h)
                                  /\ r.state.tester.len = Cardinality(OpIds(h))),
    awaiting |-> \A c \in clients :
                    LET a == r.state.actors[c + 1] IN
                    /\ a.client
                    /\ (a.awaiting # <<>>) <=> outstanding(c)
                    /\ a.awaiting # <<>> => a.awaiting[1] = lastReq(c)
  ]
Judged ==
  {LET k == Checks(Recs[i]) IN [idx |-> i, sys |-> Recs[i].sys, failed |-> {f \in DOMAIN k : ~k[f]},
                                nontrivial |-> Len(Recs[i].state.log) >= 4]
   : i \in {j \in DOMAIN Recs : ~IsSummary(Recs[j])}}
ASSUME JsonSerialize(IOEnv.OUT, [n |-> Len(Recs), states |-> Judged])
=============================================================================
