-------------------------------- MODULE Paxos --------------------------------
(***************************************************************************)
(* examples/paxos.rs as a specification: Single Decree Paxos over S        *)
(* servers, driven by C RegisterActor clients (one Put, then one Get) over *)
(* an unordered non-duplicating network, with the linearizability tester   *)
(* fed by the record hooks.  Same harness structure as SingleCopy.tla and  *)
(* Abd.tla (client states, server states, network multiset, tester state;  *)
(* the global event order `hist' is hidden by the VIEW).                   *)
(*                                                                         *)
(* Options are sequences of length <= 1 (<<>> = None, <<x>> = Some(x)); a  *)
(* ballot is <<round, id>>, a proposal <<request id, requester, value>>.   *)
(* A delivery whose handler neither touches its state nor sends anything   *)
(* is not a transition of the actor model (and the message stays in the    *)
(* network): every disjunct below is guarded accordingly.                  *)
(* Oracle: 16 668 reachable states for S = 3, C = 2 (the number the        *)
(* repository's own test asserts on the real model), "linearizable" holds. *)
(***************************************************************************)
EXTENDS Consistency, Integers, FiniteSets, TLC
CONSTANTS S, C
Servers == 0..(S - 1)
Clients == S..(S + C - 1)
VARIABLES cl, val, net, tst, hist
vars == <<cl, val, net, tst, hist>>
view == <<cl, val, net, tst>>

Put1(b, m) == {p \in b : p[1] # m} \cup {<<m, (IF \E p \in b : p[1] = m THEN (CHOOSE p \in b : p[1] = m)[2] ELSE 0) + 1>>}
Take1(b, m) == LET n == (CHOOSE p \in b : p[1] = m)[2] IN {p \in b : p[1] # m} \cup (IF n > 1 THEN {<<m, n - 1>>} ELSE {})
RECURSIVE PutAll(_, _)
PutAll(b, ms) == IF ms = {} THEN b ELSE LET m == CHOOSE x \in ms : TRUE IN PutAll(Put1(b, m), ms \ {m})

Snapshot(t) == {<<p, Len(tst.done[p]) - 1>> : p \in {q \in Clients : q # t /\ Len(tst.done[q]) > 0}}
Return_(t, ret) == [tst EXCEPT !.done[t] = Append(@, [cs |-> tst.fl[t][1].cs, op |-> tst.fl[t][1].op, ret |-> ret]), !.fl[t] = <<>>]

ValA(c) == 65 + (c - S)
Peers(s) == Servers \ {s}
Majority == (S \div 2) + 1
NoB == <<0, 0>>
(* kinds: 1 Put 2 Get 3 PutOk 4 GetOk 5 Prepare 6 Prepared 7 Accept 8 Accepted 9 Decided *)
M(s, d, kind, req, v, b, la, prop) == [src |-> s, dst |-> d, kind |-> kind, req |-> req, val |-> v, b |-> b, la |-> la, prop |-> prop]
CMsg(s, d, kind, req, v) == M(s, d, kind, req, v, NoB, <<>>, <<>>)

BLess(a, b) == a[1] < b[1] \/ (a[1] = b[1] /\ a[2] < b[2])
BLeq(a, b) == a = b \/ BLess(a, b)
(* the derived order on Option<(Ballot, Proposal)>: None first, then by ballot, then by proposal (lexicographic) *)
Key(o) == IF o = <<>> THEN <<0, 0, 0, 0, 0, 0>> ELSE <<1, o[1][1][1], o[1][1][2], o[1][2][1], o[1][2][2], o[1][2][3]>>
RECURSIVE LexLess(_, _)
LexLess(a, b) == IF a = <<>> THEN FALSE ELSE IF Head(a) # Head(b) THEN Head(a) < Head(b) ELSE LexLess(Tail(a), Tail(b))
MaxOpt(O) == CHOOSE o \in O : \A q \in O : ~LexLess(Key(o), Key(q))

Init ==
  /\ cl = [c \in Clients |-> [aw |-> c, n |-> 1]]
  /\ val = [s \in Servers |-> [ballot |-> NoB, proposal |-> <<>>, prepares |-> {}, accepts |-> {}, accepted |-> <<>>, decided |-> FALSE]]
  /\ net = {<<CMsg(c, c % S, 1, c, ValA(c)), 1>> : c \in Clients}
  /\ tst = [done |-> [c \in Clients |-> <<>>], fl |-> [c \in Clients |-> <<[cs |-> {}, op |-> Op("w", ValA(c))]>>]]
  /\ hist = [i \in 1..C |-> [k |-> "inv", t |-> S + i - 1, x |-> Op("w", ValA(S + i - 1))]]

ServerStep(m) ==
  /\ m.dst \in Servers
  /\ LET s == m.dst  st == val[s]  n0 == Take1(net, m) IN
     IF st.decided
     THEN /\ m.kind = 2
          /\ net' = Put1(n0, CMsg(s, m.src, 4, m.req, st.accepted[1][2][3]))
          /\ UNCHANGED val
     ELSE
     \/ /\ m.kind = 1 /\ st.proposal = <<>>
        /\ LET b == <<st.ballot[1] + 1, s>> IN
           /\ val' = [val EXCEPT ![s] = [st EXCEPT !.proposal = <<<<m.req, m.src, m.val>>>>, !.prepares = {<<s, st.accepted>>},
                                                    !.accepts = {}, !.ballot = b]]
           /\ net' = PutAll(n0, {M(s, p, 5, 0, 0, b, <<>>, <<>>) : p \in Peers(s)})
     \/ /\ m.kind = 5 /\ BLess(st.ballot, m.b)
        /\ val' = [val EXCEPT ![s].ballot = m.b]
        /\ net' = Put1(n0, M(s, m.src, 6, 0, 0, m.b, st.accepted, <<>>))
     \/ /\ m.kind = 6 /\ m.b = st.ballot
        /\ LET prep == {p \in st.prepares : p[1] # m.src} \cup {<<m.src, m.la>>} IN
           IF Cardinality(prep) = Majority
           THEN LET top == MaxOpt({p[2] : p \in prep})
                    proposal == IF top # <<>> THEN top[1][2] ELSE st.proposal[1]
                IN /\ val' = [val EXCEPT ![s] = [st EXCEPT !.prepares = prep, !.proposal = <<proposal>>,
                                                         !.accepted = <<<<m.b, proposal>>>>, !.accepts = {s}]]
                   /\ net' = PutAll(n0, {M(s, p, 7, 0, 0, m.b, <<>>, <<proposal>>) : p \in Peers(s)})
           ELSE /\ val' = [val EXCEPT ![s].prepares = prep]
                /\ net' = n0
     \/ /\ m.kind = 7 /\ BLeq(st.ballot, m.b)
        /\ val' = [val EXCEPT ![s].ballot = m.b, ![s].accepted = <<<<m.b, m.prop[1]>>>>]
        /\ net' = Put1(n0, M(s, m.src, 8, 0, 0, m.b, <<>>, <<>>))
     \/ /\ m.kind = 8 /\ m.b = st.ballot
        /\ LET acc == st.accepts \cup {m.src} IN
           IF Cardinality(acc) = Majority
           THEN LET proposal == st.proposal[1] IN
                /\ val' = [val EXCEPT ![s].accepts = acc, ![s].decided = TRUE]
                /\ net' = Put1(PutAll(n0, {M(s, p, 9, 0, 0, m.b, <<>>, <<proposal>>) : p \in Peers(s)}),
                               CMsg(s, proposal[2], 3, proposal[1], 0))
           ELSE /\ val' = [val EXCEPT ![s].accepts = acc]
                /\ net' = n0
     \/ /\ m.kind = 9
        /\ val' = [val EXCEPT ![s].ballot = m.b, ![s].accepted = <<<<m.b, m.prop[1]>>>>, ![s].decided = TRUE]
        /\ net' = n0
  /\ UNCHANGED <<cl, tst, hist>>

ClientStep(m) ==
  /\ m.dst \in Clients /\ m.kind \in {3, 4}
  /\ LET c == m.dst  st == cl[c] IN
     /\ st.aw # 0 /\ m.req = st.aw              \* otherwise the delivery is a no-op: no transition on this network
     /\ IF m.kind = 3
        THEN LET id == (st.n + 1) * c
                 nxt == CMsg(c, (c + st.n) % S, 2, id, 0)             \* put_count = 1: the Get follows
                 t1 == Return_(c, Ret("wok", 0))
             IN /\ net' = Put1(Take1(net, m), nxt)
                /\ cl' = [cl EXCEPT ![c] = [aw |-> id, n |-> st.n + 1]]
                /\ tst' = [t1 EXCEPT !.fl[c] = <<[cs |-> {<<p, Len(t1.done[p]) - 1>> : p \in {q \in Clients : q # c /\ Len(t1.done[q]) > 0}},
                                                  op |-> Op("r", 0)]>>]
                /\ hist' = hist \o <<[k |-> "ret", t |-> c, x |-> Ret("wok", 0)], [k |-> "inv", t |-> c, x |-> Op("r", 0)]>>
        ELSE /\ net' = Take1(net, m)
             /\ cl' = [cl EXCEPT ![c] = [aw |-> 0, n |-> st.n + 1]]
             /\ tst' = Return_(c, Ret("rok", m.val))
             /\ hist' = Append(hist, [k |-> "ret", t |-> c, x |-> Ret("rok", m.val)])
  /\ UNCHANGED val
Next == \E p \in net : ServerStep(p[1]) \/ ClientStep(p[1])
Spec == Init /\ [][Next]_vars

Linearizable == IsLinearizable("reg", 0, hist)
(* Paxos's own safety property: no two servers decide differently, and a decided server's value was proposed by a client *)
Agreement == \A a, b \in Servers : (val[a].decided /\ val[b].decided) => val[a].accepted[1][2] = val[b].accepted[1][2]
Validity == \A a \in Servers : val[a].decided => \E c \in Clients : val[a].accepted[1][2] = <<c, c, ValA(c)>>
TesterMatchesHistory ==
  \A c \in Clients :
     /\ Len(tst.done[c]) = Cardinality({i \in Completed(hist) : hist[i].t = c})
     /\ (tst.fl[c] # <<>>) <=> (\E i \in InFlight(hist) : hist[i].t = c)
=============================================================================
