------------------------------- MODULE Symmetry -------------------------------
(***************************************************************************)
(* C10: the stable sorting permutation and its two applications.           *)
(* For a vector vals (1-based here, 0-based Ids in the code):              *)
(*   Plan(vals)[i] = 0-based position of element i after a STABLE sort     *)
(*   Reindex(plan, xs): element i moves to position plan[i]                *)
(*   RewriteId(plan, id) = plan[id+1]                                      *)
(* so that Reindex(Plan(vals), vals) is sorted, and an Id that pointed at  *)
(* element i points at it again after both have been applied.              *)
(***************************************************************************)
EXTENDS Naturals, Sequences, FiniteSets

Plan(vals) ==
  [i \in DOMAIN vals |->
     Cardinality({j \in DOMAIN vals : vals[j] < vals[i]}) + Cardinality({j \in DOMAIN vals : j < i /\ vals[j] = vals[i]})]
IsPerm(plan) == {plan[i] : i \in DOMAIN plan} = 0..(Len(plan) - 1)
Inverse(plan, p) == CHOOSE i \in DOMAIN plan : plan[i] = p       \* 1-based index of the element that lands at position p
Reindex(plan, xs) == [p \in DOMAIN xs |-> xs[Inverse(plan, p - 1)]]
RewriteId(plan, id) == IF id + 1 \in DOMAIN plan THEN plan[id + 1] ELSE id
IsSorted(xs) == \A i, j \in DOMAIN xs : i < j => xs[i] <= xs[j]

(* theorems over all vectors of length <= L over values 0..M (checked by TLC) *)
RECURSIVE Vecs(_, _)
Vecs(L, M) == IF L = 0 THEN {<<>>} ELSE LET S == Vecs(L - 1, M) IN S \cup {Append(s, v) : s \in {t \in S : Len(t) = L - 1}, v \in 0..M}
PlanIsPerm(D)    == \A v \in D : IsPerm(Plan(v))
ReindexSorts(D)  == \A v \in D : IsSorted(Reindex(Plan(v), v))
Stable(D)        == \A v \in D : \A i, j \in DOMAIN v : (i < j /\ v[i] = v[j]) => Plan(v)[i] < Plan(v)[j]
Agree(D)         == \A v \in D : \A i \in DOMAIN v : Reindex(Plan(v), v)[RewriteId(Plan(v), i - 1) + 1] = v[i]
=============================================================================
