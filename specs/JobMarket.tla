------------------------------ MODULE JobMarket ------------------------------
(***************************************************************************)
(* The synchronisation protocol of stateright's job market (job_market.rs) *)
(* by which checker worker threads share work and shut down together       *)
(* (C05, timeout part of C12).                                             *)
(*                                                                         *)
(* One mutex protects  open, openCount, batches ; one condition variable   *)
(* signals new work or shutdown.  Every action below is one critical       *)
(* section of the code (the hooks emit one event per action, inside the    *)
(* section), so interleavings of actions = interleavings of lock holders.  *)
(*                                                                         *)
(* Workers (the set W, |W| = thread count) run the loop of bfs.rs/dfs.rs:  *)
(*   if local work is empty: pop  (blocks on the condvar when no batch is  *)
(*   available and somebody else is still active; the last active worker   *)
(*   closes the market)                                                    *)
(*   process a block (consumes local jobs, may create new ones)            *)
(*   finish condition / target reached  ->  exit (drops its broker clone,  *)
(*   which closes the market)                                              *)
(*   share: split local work into batches for the waiting workers          *)
(* The timeout thread T closes the market once the deadline has passed.    *)
(* Jobs are identified by natural numbers so that "no job is lost or       *)
(* handed to two workers" can be stated.                                   *)
(***************************************************************************)
EXTENDS Naturals, Sequences, FiniteSets

CONSTANTS W,            \* worker ids
          MaxJobs,      \* total number of jobs that may ever be created
          InitJobs,     \* number of jobs pushed initially by the spawning thread
          BlockSize,    \* jobs processed per block (1500 in the code)
          WithTimeout,  \* BOOLEAN: a timeout thread exists
          AlwaysSplit   \* BOOLEAN: workers visit the market after every block (TRUE = repaired code);
                        \* FALSE = as found: only when |local| > 1 and |W| > 1

VARIABLES open, openCount, batches,   \* the market (batches: sequence of sets of job ids; pop takes the last)
          pc,          \* pc[w] \in {"run", "wait", "woken", "done"}
          local,       \* local[w]: set of job ids pending at worker w
          created,     \* number of jobs created so far (ids 1..created)
          processed,   \* bag: processed[j] = how many times job j was evaluated
          discarded,   \* jobs thrown away by a shutdown (market cleared / local cleared)
          finish,      \* a finish condition / target has been met (sticky, seen by every worker after its block)
          expired,     \* the deadline has passed
          tdone,       \* the timeout thread has exited
          blocksAfterClose  \* blocksAfterClose[w]: blocks w completed since the market was closed by expiry
vars == <<open, openCount, batches, pc, local, created, processed, discarded, finish, expired, tdone, blocksAfterClose>>

N == Cardinality(W)
Min2(a, b) == IF a <= b THEN a ELSE b

Init ==
  /\ open = TRUE
  /\ openCount = N
  /\ batches = IF InitJobs > 0 THEN <<1..InitJobs>> ELSE <<>>       \* job_broker.push(pending) by the spawner
  /\ pc = [w \in W |-> "run"]
  /\ local = [w \in W |-> {}]
  /\ created = InitJobs
  /\ processed = [j \in 1..MaxJobs |-> 0]
  /\ discarded = {}
  /\ finish = FALSE
  /\ expired = FALSE
  /\ tdone = ~WithTimeout
  /\ blocksAfterClose = [w \in W |-> 0]

-----------------------------------------------------------------------------
(* pop(): entry with the market closed -> empty result -> the worker returns, dropping its broker *)
DropEffect(w) ==
  \* impl Drop for JobBroker: close, clear, decrement, notify_all
  /\ open' = FALSE
  /\ discarded' = discarded \cup UNION {batches[i] : i \in DOMAIN batches} \cup local[w]
  /\ batches' = <<>>
  /\ openCount' = IF openCount > 0 THEN openCount - 1 ELSE 0
  /\ pc' = [v \in W |-> IF v = w THEN "done" ELSE IF pc[v] = "wait" THEN "woken" ELSE pc[v]]
  /\ local' = [local EXCEPT ![w] = {}]

(* A worker whose pop() returned nothing returns from its thread; the broker clone is dropped.
   PopClosed + Drop are two critical sections in the code; nothing of the worker happens in between,
   so the exit is modelled as the Drop (the PopClosed event is a stuttering step of the trace). *)
PopClosedExit(w) ==
  /\ pc[w] = "run" /\ local[w] = {} /\ ~open
  /\ DropEffect(w)
  /\ UNCHANGED <<created, processed, finish, expired, tdone, blocksAfterClose>>

PopGot(w) ==
  /\ pc[w] = "run" /\ local[w] = {} /\ open /\ batches # <<>>
  /\ local' = [local EXCEPT ![w] = batches[Len(batches)]]
  /\ batches' = SubSeq(batches, 1, Len(batches) - 1)
  /\ UNCHANGED <<open, openCount, pc, created, processed, discarded, finish, expired, tdone, blocksAfterClose>>

PopWait(w) ==
  /\ pc[w] = "run" /\ local[w] = {} /\ open /\ batches = <<>> /\ openCount > 1
  /\ openCount' = openCount - 1
  /\ pc' = [pc EXCEPT ![w] = "wait"]
  /\ UNCHANGED <<open, batches, local, created, processed, discarded, finish, expired, tdone, blocksAfterClose>>

(* the last active worker: notify everyone, close, return (then its Drop) *)
PopLastClose(w) ==
  /\ pc[w] = "run" /\ local[w] = {} /\ open /\ batches = <<>> /\ openCount <= 1
  /\ open' = FALSE
  /\ openCount' = 0
  /\ pc' = [v \in W |-> IF v = w THEN "done" ELSE IF pc[v] = "wait" THEN "woken" ELSE pc[v]]
  /\ UNCHANGED <<batches, local, created, processed, discarded, finish, expired, tdone, blocksAfterClose>>

(* a notified waiter reacquires the lock: open_count += 1 and around the loop again.
   NOTE the loop does not re-test `open': a woken worker that finds no batch decrements again and
   either is the last one (returns) or waits again. *)
Wake(w) ==
  /\ pc[w] = "woken"
  /\ openCount' = openCount + 1
  /\ pc' = [pc EXCEPT ![w] = "rewoken"]
  /\ UNCHANGED <<open, batches, local, created, processed, discarded, finish, expired, tdone, blocksAfterClose>>
AfterWakeGot(w) ==
  /\ pc[w] = "rewoken" /\ batches # <<>>
  /\ local' = [local EXCEPT ![w] = batches[Len(batches)]]
  /\ batches' = SubSeq(batches, 1, Len(batches) - 1)
  /\ pc' = [pc EXCEPT ![w] = "run"]
  /\ UNCHANGED <<open, openCount, created, processed, discarded, finish, expired, tdone, blocksAfterClose>>
AfterWakeWait(w) ==
  /\ pc[w] = "rewoken" /\ batches = <<>> /\ openCount > 1
  /\ openCount' = openCount - 1
  /\ pc' = [pc EXCEPT ![w] = "wait"]
  /\ UNCHANGED <<open, batches, local, created, processed, discarded, finish, expired, tdone, blocksAfterClose>>
AfterWakeLast(w) ==
  /\ pc[w] = "rewoken" /\ batches = <<>> /\ openCount <= 1
  /\ open' = FALSE
  /\ openCount' = 0
  /\ pc' = [v \in W |-> IF v = w THEN "done" ELSE IF pc[v] = "wait" THEN "woken" ELSE pc[v]]
  /\ UNCHANGED <<batches, local, created, processed, discarded, finish, expired, tdone, blocksAfterClose>>

(* check_block: evaluate up to BlockSize local jobs, each may generate new jobs (no market access) *)
ProcessBlock(w) ==
  /\ pc[w] = "run" /\ local[w] # {}
  /\ \E done \in SUBSET local[w] :
       /\ done # {} /\ Cardinality(done) <= BlockSize
       /\ (Cardinality(done) < BlockSize => done = local[w])          \* a short block means the queue ran empty
       /\ \E k \in 0..(MaxJobs - created) :
            /\ created' = created + k
            /\ local' = [local EXCEPT ![w] = (@ \ done) \cup ((created + 1)..(created + k))]
            /\ processed' = [j \in 1..MaxJobs |-> IF j \in done THEN processed[j] + 1 ELSE processed[j]]
  /\ \E f \in {finish, TRUE} : finish' = f                             \* a discovery / the target may complete now
  /\ blocksAfterClose' = [blocksAfterClose EXCEPT ![w] = IF expired /\ ~open THEN @ + 1 ELSE @]
  /\ pc' = [pc EXCEPT ![w] = "block_done"]
  /\ UNCHANGED <<open, openCount, batches, discarded, expired, tdone>>

(* after the block: finish condition met -> return (Drop) *)
ExitEarly(w) ==
  /\ pc[w] = "block_done" /\ finish
  /\ DropEffect(w)
  /\ UNCHANGED <<created, processed, finish, expired, tdone, blocksAfterClose>>

(* split_and_push: one batch per waiting worker (at most |local| of them), each of size |local| / pieces *)
Pieces(w) == 1 + Min2(N - openCount, Cardinality(local[w]))
Visits(w) == AlwaysSplit \/ (Cardinality(local[w]) > 1 /\ N > 1)
Share(w) ==
  /\ pc[w] = "block_done" /\ ~finish /\ Visits(w) /\ open
  /\ LET size == Cardinality(local[w]) \div Pieces(w)
         nb   == IF size = 0 THEN 0 ELSE Pieces(w) - 1
     IN \E parts \in [1..nb -> SUBSET local[w]] :
          /\ \A i \in 1..nb : Cardinality(parts[i]) = size
          /\ \A i, j \in 1..nb : i # j => parts[i] \cap parts[j] = {}
          /\ batches' = batches \o [i \in 1..nb |-> parts[i]]
          /\ local' = [local EXCEPT ![w] = @ \ UNION {parts[i] : i \in 1..nb}]
          \* notify_one per batch: wakes SOME waiter each (if any)
          /\ \E woken \in SUBSET {v \in W : pc[v] = "wait"} :
               /\ Cardinality(woken) = Min2(nb, Cardinality({v \in W : pc[v] = "wait"}))
               /\ pc' = [v \in W |-> IF v = w THEN "run" ELSE IF v \in woken THEN "woken" ELSE pc[v]]
  /\ UNCHANGED <<open, openCount, created, processed, discarded, finish, expired, tdone, blocksAfterClose>>
ShareClosed(w) ==
  /\ pc[w] = "block_done" /\ ~finish /\ Visits(w) /\ ~open
  /\ discarded' = discarded \cup local[w]
  /\ local' = [local EXCEPT ![w] = {}]
  /\ pc' = [pc EXCEPT ![w] = "run"]
  /\ UNCHANGED <<open, openCount, batches, created, processed, finish, expired, tdone, blocksAfterClose>>
NoVisit(w) ==
  /\ pc[w] = "block_done" /\ ~finish /\ ~Visits(w)
  /\ pc' = [pc EXCEPT ![w] = "run"]
  /\ UNCHANGED <<open, openCount, batches, local, created, processed, discarded, finish, expired, tdone, blocksAfterClose>>

(* the timeout thread: once the deadline has passed it closes the market (no notification), and when it
   sees the market closed it exits, dropping its clone *)
Expire == /\ WithTimeout /\ ~expired /\ expired' = TRUE
          /\ UNCHANGED <<open, openCount, batches, pc, local, created, processed, discarded, finish, tdone, blocksAfterClose>>
TimeoutPollClose ==
  /\ WithTimeout /\ ~tdone /\ expired /\ open
  /\ open' = FALSE
  /\ UNCHANGED <<openCount, batches, pc, local, created, processed, discarded, finish, expired, tdone, blocksAfterClose>>
TimeoutExit ==
  /\ WithTimeout /\ ~tdone /\ ~open
  /\ tdone' = TRUE
  \* Drop of the timeout thread's clone
  /\ discarded' = discarded \cup UNION {batches[i] : i \in DOMAIN batches}
  /\ batches' = <<>>
  /\ openCount' = IF openCount > 0 THEN openCount - 1 ELSE 0
  /\ pc' = [v \in W |-> IF pc[v] = "wait" THEN "woken" ELSE pc[v]]
  /\ UNCHANGED <<open, local, created, processed, finish, expired, blocksAfterClose>>

WorkerStep(w) ==
  \/ PopClosedExit(w) \/ PopGot(w) \/ PopWait(w) \/ PopLastClose(w)
  \/ Wake(w) \/ AfterWakeGot(w) \/ AfterWakeWait(w) \/ AfterWakeLast(w)
  \/ ProcessBlock(w) \/ ExitEarly(w) \/ Share(w) \/ ShareClosed(w) \/ NoVisit(w)
Next == (\E w \in W : WorkerStep(w)) \/ Expire \/ TimeoutPollClose \/ TimeoutExit

Fairness == /\ \A w \in W : WF_vars(WorkerStep(w))
            /\ WF_vars(TimeoutPollClose) /\ WF_vars(TimeoutExit)
Spec == Init /\ [][Next]_vars /\ Fairness

-----------------------------------------------------------------------------
AllDone == \A w \in W : pc[w] = "done"
Everywhere == UNION {local[w] : w \in W} \cup UNION {batches[i] : i \in DOMAIN batches}
Stopped == finish \/ expired          \* a stop reason other than "frontier empty"

TypeOK ==
  /\ open \in BOOLEAN /\ openCount \in 0..(N + 1)
  /\ \A w \in W : pc[w] \in {"run", "wait", "woken", "rewoken", "block_done", "done"}
  /\ created \in 0..MaxJobs

(* no job is handed to two workers, none is evaluated twice *)
NoDuplication ==
  /\ \A v, w \in W : v # w => local[v] \cap local[w] = {}
  /\ \A i, j \in DOMAIN batches : i # j => batches[i] \cap batches[j] = {}
  /\ \A w \in W : \A i \in DOMAIN batches : local[w] \cap batches[i] = {}
  /\ \A j \in 1..MaxJobs : processed[j] <= 1
  /\ \A j \in Everywhere : processed[j] = 0
(* no job is lost: every created job is pending somewhere, evaluated, or was discarded by a shutdown *)
NoLoss == \A j \in 1..created : j \in Everywhere \/ processed[j] = 1 \/ j \in discarded
(* work is only discarded for a reason *)
DiscardOnlyWhenStopped == discarded # {} => Stopped
(* the "last worker" close happens only when no work is left anywhere *)
CloseOnlyWhenIdle == (~open /\ ~Stopped) => Everywhere = {}
(* completion: without a stop reason every job is evaluated exactly once *)
Complete == (AllDone /\ ~Stopped) => \A j \in 1..created : processed[j] = 1
(* nobody sleeps forever while work or a shutdown is pending: waiting workers are accounted for *)
CountOK == open => openCount = Cardinality({w \in W : pc[w] \in {"run", "rewoken", "block_done"}})
NoLostWakeup == (~open /\ (\A w \in W : pc[w] \in {"wait", "done"}) /\ tdone) => AllDone
(* C12: after the market was closed by the timeout a worker completes at most one more block *)
BoundedDelay == \A w \in W : blocksAfterClose[w] <= 1

(* the only state without a successor is the one where every thread has exited *)
NoStuck == (ENABLED Next) \/ (AllDone /\ tdone)

Termination == <>[]AllDone
StopPropagates == (finish \/ (expired /\ ~open)) ~> AllDone
=============================================================================
