--------------------------- MODULE MCActorSystem ---------------------------
(***************************************************************************)
(* ActorSystem.tla as a temporal specification over a corpus of systems:   *)
(* TLC explores every reachable in-boundary state of every system.         *)
(*  - its distinct-state count is the independent oracle for what the real *)
(*    checkers must report as unique_state_count (C04 second leg, C09);    *)
(*  - design-level invariants of the semantics itself (C06 C07 C09).       *)
(***************************************************************************)
EXTENDS ActorSystem, Json, IOUtils, TLC

Systems == ndJsonDeserialize(IOEnv.SYSTEMS)

VARIABLES si, st
vars == <<si, st>>

Init == /\ si \in DOMAIN Systems
        /\ st = InitState(Systems[si])
        /\ InBoundary(Systems[si], st)
Next == /\ \E a \in Enabled(Systems[si], st) :
              /\ Step(Systems[si], st, a).ok
              /\ st' = Step(Systems[si], st, a).st
              /\ InBoundary(Systems[si], st')
        /\ UNCHANGED si
Spec == Init /\ [][Next]_vars

sys == Systems[si]

(* ---- structural invariants of states ---- *)
TypeOK ==
  /\ Len(st.actors) = N(sys) /\ Len(st.timers) = N(sys) /\ Len(st.choices) = N(sys) /\ Len(st.crashed) = N(sys)
  /\ st.net.kind = sys.network
  /\ \A p \in st.net.bag : p[2] > 0
  /\ \A f \in st.net.flows : f[3] # <<>>
  /\ \A i \in 1..N(sys) : \A p, q \in st.choices[i] : p[1] = q[1] => p = q      \* one pending choice per key

(* ---- C09 ---- *)
CrashBudget == NCrashed(st) <= sys.max_crashes
CrashedHaveNothingPending ==
  \A i \in Ids(sys) : st.crashed[i + 1] => st.timers[i + 1] = {} /\ st.choices[i + 1] = {}
ActorOf(a) == IF a.k = "deliver" THEN a.dst ELSE IF a.k = "drop" THEN -1 ELSE a.id
(* a crashed actor never again receives a message, fires a timer or makes a random choice *)
CrashedSilent ==
  \A a \in Enabled(sys, st) :
     (ActorOf(a) \in Ids(sys) /\ st.crashed[ActorOf(a) + 1]) => ~Step(sys, st, a).ok
(* crashing i changes nothing for the others: every step of another actor commutes with it *)
CrashCommutes ==
  \A i \in Ids(sys) : ~st.crashed[i + 1] =>
     LET sc == Apply(sys, st, ACrash(i)) IN
     \A a \in Enabled(sys, st) :
        (a.k # "crash" /\ ActorOf(a) # i) =>
           /\ a \in Enabled(sys, sc)
           /\ Step(sys, sc, a).ok = Step(sys, st, a).ok
           /\ Step(sys, st, a).ok => Step(sys, sc, a).st = Apply(sys, Step(sys, st, a).st, ACrash(i))
(* crash steps are offered exactly while the budget allows, for exactly the live actors *)
CrashOffered ==
  {a.id : a \in {a \in Enabled(sys, st) : a.k = "crash"}} =
     IF NCrashed(st) < sys.max_crashes THEN {i \in Ids(sys) : ~st.crashed[i + 1]} ELSE {}

(* ---- C07 (state level) ---- *)
DropsOnlyWhenLossy == (\E a \in Enabled(sys, st) : a.k = "drop") => sys.lossy
LenAgrees == NetLen(st.net) = SumSet(AllEnvs(st.net), [p \in AllEnvs(st.net) |-> p[2]])
DeliverableInFlight == \A e \in Deliverable(st.net) : \E p \in AllEnvs(st.net) : p[1] = e
(* one drop removes exactly one copy, one delivery at most one *)
OneCopy ==
  \A a \in Enabled(sys, st) :
     /\ a.k = "drop" => NetLen(Apply(sys, st, a).net) = NetLen(st.net) - 1
     /\ (a.k = "deliver" /\ Step(sys, st, a).ok /\ sys.network # "dup") =>
           NetLen(DeliverNet(st.net, Env(a.src, a.dst, a.msg))) = NetLen(st.net) - 1

(* ---- C06: nothing but the acting actor's slots, the network and the history changes ---- *)
Locality ==
  \A a \in Enabled(sys, st) :
     Step(sys, st, a).ok =>
        LET t == Step(sys, st, a).st  i == ActorOf(a) IN
        /\ \A j \in Ids(sys) : j # i =>
              /\ t.actors[j + 1] = st.actors[j + 1] /\ t.timers[j + 1] = st.timers[j + 1]
              /\ t.choices[j + 1] = st.choices[j + 1] /\ t.crashed[j + 1] = st.crashed[j + 1]
        /\ a.k = "drop" => (t.actors = st.actors /\ t.hist = st.hist /\ t.timers = st.timers)
        /\ a.k = "timeout" => a.t \notin t.timers[i + 1] \/ \E k \in DOMAIN OnTimer(sys, i, st.actors[i + 1], a.t).cmds :
                                                               OnTimer(sys, i, st.actors[i + 1], a.t).cmds[k].k = "set"
=============================================================================
