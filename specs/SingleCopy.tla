------------------------------ MODULE SingleCopy ------------------------------
(***************************************************************************)
(* examples/single-copy-register.rs as a specification: S servers each     *)
(* holding one copy of a register (Put stores and answers PutOk, Get       *)
(* answers GetOk with the stored value), C RegisterActor clients (one Put,  *)
(* then one Get), an unordered non-duplicating network, and the            *)
(* linearizability tester fed by record_invocations / record_returns.      *)
(*                                                                         *)
(* The state is what the real ActorModelState consists of: client states,  *)
(* server values, the network multiset, and the TESTER STATE -- per thread *)
(* the completed operations and the one in flight, each with the indices   *)
(* of the peers' last completed operations at invocation time (that is     *)
(* what LinearizabilityTester stores, and what makes two interleavings the *)
(* same or different states).  `hist' (the global order of events) is an   *)
(* auxiliary variable hidden by the VIEW; it lets TLC evaluate the         *)
(* definition-level IsLinearizable of Consistency.tla in every state.      *)
(* Oracles for the real checkers: number of distinct states (93 for S = 1, *)
(* C = 2), "linearizable" holds for S = 1 and is violated for S = 2.       *)
(***************************************************************************)
EXTENDS Consistency, Integers, FiniteSets, TLC
CONSTANTS S, C
Servers == 0..(S - 1)
Clients == S..(S + C - 1)
VARIABLES cl, val, net, tst, hist
vars == <<cl, val, net, tst, hist>>
view == <<cl, val, net, tst>>

Msg(s, d, kind, req, v) == [src |-> s, dst |-> d, kind |-> kind, req |-> req, val |-> v]
Count(m) == IF \E p \in net : p[1] = m THEN (CHOOSE p \in net : p[1] = m)[2] ELSE 0
Put1(b, m) == {p \in b : p[1] # m} \cup {<<m, (IF \E p \in b : p[1] = m THEN (CHOOSE p \in b : p[1] = m)[2] ELSE 0) + 1>>}
Take1(b, m) == LET n == (CHOOSE p \in b : p[1] = m)[2] IN {p \in b : p[1] # m} \cup (IF n > 1 THEN {<<m, n - 1>>} ELSE {})

(* the tester: done[t] = sequence of [cs, op, ret]; fl[t] = <<>> or <<[cs, op]>>; cs = set of <<peer, index of its last
   completed operation (0-based)>> *)
Snapshot(t) == {<<p, Len(tst.done[p]) - 1>> : p \in {q \in Clients : q # t /\ Len(tst.done[q]) > 0}}
Invoke_(t, op) == [tst EXCEPT !.fl[t] = <<[cs |-> Snapshot(t), op |-> op]>>]
Return_(t, ret) == [tst EXCEPT !.done[t] = Append(@, [cs |-> tst.fl[t][1].cs, op |-> tst.fl[t][1].op, ret |-> ret]), !.fl[t] = <<>>]

ValA(c) == 65 + (c - S)
Init ==
  /\ cl = [c \in Clients |-> [aw |-> c, n |-> 1]]
  /\ val = [s \in Servers |-> 0]
  /\ net = {<<Msg(c, c % S, 1, c, ValA(c)), 1>> : c \in Clients}
  \* every client has sent its Put: invocations recorded in Id order
  /\ tst = [done |-> [c \in Clients |-> <<>>], fl |-> [c \in Clients |-> <<[cs |-> {}, op |-> Op("w", ValA(c))]>>]]
  /\ hist = [i \in 1..C |-> [k |-> "inv", t |-> S + i - 1, x |-> Op("w", ValA(S + i - 1))]]

ServerStep(m) ==
  /\ m.dst \in Servers /\ m.kind \in {1, 2}
  /\ IF m.kind = 1
     THEN val' = [val EXCEPT ![m.dst] = m.val] /\ net' = Put1(Take1(net, m), Msg(m.dst, m.src, 3, m.req, 0))
     ELSE UNCHANGED val /\ net' = Put1(Take1(net, m), Msg(m.dst, m.src, 4, m.req, val[m.dst]))
  /\ UNCHANGED <<cl, tst, hist>>
ClientStep(m) ==
  /\ m.dst \in Clients /\ m.kind \in {3, 4}
  /\ LET c == m.dst  st == cl[c] IN
     /\ st.aw # 0 /\ m.req = st.aw              \* otherwise the delivery is a no-op: no transition on this network
     /\ IF m.kind = 3
        THEN LET id == (st.n + 1) * c
                 nxt == Msg(c, (c + st.n) % S, 2, id, 0)       \* put_count = 1: the Get follows
                 t1 == Return_(c, Ret("wok", 0))
             IN /\ net' = Put1(Take1(net, m), nxt)
                /\ cl' = [cl EXCEPT ![c] = [aw |-> id, n |-> st.n + 1]]
                /\ tst' = [t1 EXCEPT !.fl[c] = <<[cs |-> {<<p, Len(t1.done[p]) - 1>> : p \in {q \in Clients : q # c /\ Len(t1.done[q]) > 0}},
                                                  op |-> Op("r", 0)]>>]
                /\ hist' = hist \o <<[k |-> "ret", t |-> c, x |-> Ret("wok", 0)], [k |-> "inv", t |-> c, x |-> Op("r", 0)]>>
        ELSE /\ net' = Take1(net, m)
             /\ cl' = [cl EXCEPT ![c] = [aw |-> 0, n |-> st.n + 1]]
             /\ tst' = Return_(c, Ret("rok", m.val))
             /\ hist' = Append(hist, [k |-> "ret", t |-> c, x |-> Ret("rok", m.val)])
  /\ UNCHANGED val
Next == \E p \in net : ServerStep(p[1]) \/ ClientStep(p[1])
Spec == Init /\ [][Next]_vars

Linearizable == IsLinearizable("reg", 0, hist)
(* the auxiliary history and the tester state tell the same story (per thread) *)
TesterMatchesHistory ==
  \A c \in Clients :
     /\ Len(tst.done[c]) = Cardinality({i \in Completed(hist) : hist[i].t = c})
     /\ (tst.fl[c] # <<>>) <=> (\E i \in InFlight(hist) : hist[i].t = c)
=============================================================================
