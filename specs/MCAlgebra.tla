------------------------------- MODULE MCAlgebra -------------------------------
(* TLC checks the laws of VectorClock.tla and Symmetry.tla over finite domains
   (design level of C20 / C10).  The state space is the domain itself, so that TLC's
   statistics count the clocks / vectors examined. *)
EXTENDS TLC, FiniteSets, Naturals, Sequences
VC == INSTANCE VectorClock
SY == INSTANCE Symmetry
CONSTANTS L, M
Clocks == VC!SeqsUpTo(L, M)
Vectors == SY!Vecs(L + 1, M)
VARIABLES a, b
Init == a \in Clocks /\ b \in Clocks
Next == UNCHANGED <<a, b>>
Spec == Init /\ [][Next]_<<a, b>>

PairLaws ==
  /\ VC!Leq(a, a)
  /\ (VC!Leq(a, b) /\ VC!Leq(b, a)) => VC!EqV(a, b)
  /\ \A c \in Clocks : (VC!Leq(a, b) /\ VC!Leq(b, c)) => VC!Leq(a, c)
  /\ LET m == VC!Merge(a, b) IN
       /\ VC!Leq(a, m) /\ VC!Leq(b, m)
       /\ \A c \in Clocks : (VC!Leq(a, c) /\ VC!Leq(b, c)) => VC!Leq(m, c)
  /\ \A k \in 0..L : VC!Cmp(a, VC!Inc(a, k)) = "LT"
  /\ VC!EqV(a, b) <=> VC!Canon(a) = VC!Canon(b)
  /\ (VC!Cmp(a, b) = "LT") <=> (VC!Cmp(b, a) = "GT")
ASSUME SY!PlanIsPerm(Vectors) /\ SY!ReindexSorts(Vectors) /\ SY!Stable(Vectors) /\ SY!Agree(Vectors)
=============================================================================
