------------------------- MODULE OrderedReliableLink -------------------------
(***************************************************************************)
(* C16: the ordered reliable link (actor/ordered_reliable_link.rs) between *)
(* link-wrapped actors over a network that may drop, duplicate and reorder *)
(* (stateright's lossy duplicating network).                               *)
(*                                                                         *)
(* Protocol (one module, two variants selected by the constant PerDst):    *)
(*  sender side:  every message sent by the wrapped actor gets a sequencer *)
(*    and is kept in `pending' until acknowledged; the Network timer       *)
(*    retransmits all pending messages.                                    *)
(*      PerDst = FALSE (as found): ONE counter per sender, shared by all   *)
(*                     destinations; an Ack(q) removes pending entry q.    *)
(*      PerDst = TRUE  (repaired): one counter per destination; an Ack(q)  *)
(*                     from d removes pending entry (d, q).                *)
(*  receiver side: lastDelivered[src].                                     *)
(*      as found : every Deliver(q, m) is acknowledged; m is handed to the *)
(*                 wrapped actor iff q > lastDelivered[src].               *)
(*      repaired : q <= last: acknowledged (duplicate); q = last + 1:      *)
(*                 acknowledged and handed over; q > last + 1: ignored     *)
(*                 (neither handed over nor acknowledged -- it will be     *)
(*                 retransmitted).                                         *)
(* The wrapped actors are scripted: actor i sends sys.scripts[i+1] at      *)
(* start, records (src, m) for everything it is handed, and answers a      *)
(* handed message `on' with the sends listed for it in sys.replies[i+1]    *)
(* (so that messages are also sent long after start, over an idle link).   *)
(* It keeps its own log of what it sent.                                   *)
(*                                                                         *)
(* State of actor i: [next, pending, last, handed, sent]                   *)
(*   next    PerDst: function dst -> next sequencer (set of <<dst, n>>);   *)
(*           else the single counter                                       *)
(*   pending set of [seq, dst, m]                                          *)
(*   last    set of <<src, seq>>                                           *)
(*   handed  sequence of [src, m]                                          *)
(*   sent    sequence of [dst, m]: the wrapped actor's own log of its sends *)
(* Messages: [k |-> "deliver", seq, m] / [k |-> "ack", seq, m |-> 0].      *)
(* The network operators come from ActorSystem.tla.                        *)
(***************************************************************************)
EXTENDS ActorSystem

CONSTANT PerDst

NA(sys) == Len(sys.scripts)
OIds(sys) == 0..(NA(sys) - 1)
DeliverMsg(q, m) == [k |-> "deliver", seq |-> q, m |-> m]
AckMsg(q) == [k |-> "ack", seq |-> q, m |-> 0]
NetTimer == 1

(* scripted receivers may ignore even message values (handler leaves the state untouched and sends nothing) *)
Ignores(sys, rcv, msg) == msg.k = "deliver" /\ "ignore_even" \in DOMAIN sys /\ sys.ignore_even[rcv + 1] /\ msg.m % 2 = 0
IgnoresVal(sys, rcv, m) == "ignore_even" \in DOMAIN sys /\ sys.ignore_even[rcv + 1] /\ m % 2 = 0

LastOf(L, src) == IF \E p \in L.last : p[1] = src THEN (CHOOSE p \in L.last : p[1] = src)[2] ELSE 0
SetLast(L, src, q) == [L EXCEPT !.last = {p \in @ : p[1] # src} \cup {<<src, q>>}]
NextFor(L, dst) == IF PerDst THEN (IF \E p \in L.next : p[1] = dst THEN (CHOOSE p \in L.next : p[1] = dst)[2] ELSE 1)
                   ELSE L.next
Bump(L, dst) == IF PerDst THEN [L EXCEPT !.next = {p \in @ : p[1] # dst} \cup {<<dst, NextFor(L, dst) + 1>>}]
                ELSE [L EXCEPT !.next = @ + 1]

(* process_output: one Send of the wrapped actor *)
LinkSend(L, dst, m) ==
  LET q == NextFor(L, dst) IN
  [L |-> Bump([L EXCEPT !.pending = @ \cup {[seq |-> q, dst |-> dst, m |-> m]}, !.sent = Append(@, [dst |-> dst, m |-> m])], dst),
   env |-> [dst |-> dst, msg |-> DeliverMsg(q, m)]]

RECURSIVE SendScript(_, _, _)
SendScript(L, script, out) ==
  IF script = <<>> THEN [L |-> L, out |-> out]
  ELSE LET r == LinkSend(L, Head(script).dst, Head(script).msg) IN
       SendScript(r.L, Tail(script), Append(out, r.env))

StartLocal(sys, i) ==
  SendScript([next |-> IF PerDst THEN {} ELSE 1, pending |-> {}, last |-> {}, handed |-> <<>>, sent |-> <<>>], sys.scripts[i + 1], <<>>)

(* what the wrapped actor i sends when it is handed (and does not ignore) message value m: a sequence of [dst, msg] *)
RepliesFor(sys, i, m) ==
  IF "replies" \in DOMAIN sys
  THEN LET rs == SelectSeq(sys.replies[i + 1], LAMBDA r : r.on = m)
       IN  [k \in 1..Len(rs) |-> [dst |-> rs[k].dst, msg |-> rs[k].msg]]
  ELSE <<>>

(* a handler result: [touch, L, sends (sequence of [dst, msg]), timers set];  `replies' = what the wrapped actor
   sends in answer (empty when it ignores the message) *)
OnDeliver(L, src, msg, ignored, replies) ==
  IF msg.k = "ack"
  THEN \* state.to_mut() is always taken: an Ack is a transition even when nothing is pending
       [touch |-> TRUE,
        L |-> [L EXCEPT !.pending = IF PerDst THEN {p \in @ : ~(p.seq = msg.seq /\ p.dst = src)} ELSE {p \in @ : p.seq # msg.seq}],
        sends |-> <<>>]
  ELSE LET last == LastOf(L, src)
           ack == <<[dst |-> src, msg |-> AckMsg(msg.seq)]>>
           \* a wrapped actor that ignores the message (no state change, no output) was still handed the message:
           \* the sequencer advances (its successor is only accepted afterwards), nothing is recorded
           out  == SendScript(SetLast(IF ignored THEN L ELSE [L EXCEPT !.handed = Append(@, [src |-> src, m |-> msg.m])], src, msg.seq),
                              IF ignored THEN <<>> ELSE replies, <<>>)
           hand == [touch |-> TRUE, L |-> out.L, sends |-> ack \o out.out]
       IN IF msg.seq <= last THEN [touch |-> FALSE, L |-> L, sends |-> ack]
          ELSE IF ~PerDst THEN hand
          ELSE IF msg.seq = last + 1 THEN hand
          ELSE [touch |-> FALSE, L |-> L, sends |-> <<>>]       \* gap: wait for the retransmission

(* retransmission: order of the resends is irrelevant on the (set-like) duplicating network *)
SetToSeq(S) == LET RECURSIVE F(_) F(T) == IF T = {} THEN <<>> ELSE LET x == CHOOSE y \in T : TRUE IN <<x>> \o F(T \ {x}) IN F(S)
OnNetTimer(L) ==
  [touch |-> FALSE, L |-> L,
   sends |-> [i \in 1..Cardinality(L.pending) |->
                LET p == SetToSeq(L.pending)[i] IN [dst |-> p.dst, msg |-> DeliverMsg(p.seq, p.m)]]]

RECURSIVE SendAllFrom(_, _, _)
SendAllFrom(net, i, sends) ==
  IF sends = <<>> THEN net ELSE SendAllFrom(SendNet(net, Env(i, Head(sends).dst, Head(sends).msg)), i, Tail(sends))

OInit(sys) ==
  LET starts == [i \in 1..NA(sys) |-> StartLocal(sys, i - 1)]
      RECURSIVE Net(_, _)
      Net(net, i) == IF i > NA(sys) THEN net ELSE Net(SendAllFrom(net, i - 1, starts[i].out), i + 1)
  IN [actors |-> [i \in 1..NA(sys) |-> starts[i].L],
      net |-> Net(EmptyNet(sys.network), 1),
      timers |-> [i \in 1..NA(sys) |-> {NetTimer}],
      choices |-> [i \in 1..NA(sys) |-> {}],
      crashed |-> [i \in 1..NA(sys) |-> FALSE],
      hist |-> <<>>]

OEnabled(sys, s) ==
     {ADrop(e) : e \in IF sys.lossy THEN Deliverable(s.net) ELSE {}}
  \cup {ADeliver(e) : e \in {e \in Deliverable(s.net) : e.dst \in OIds(sys)}}
  \cup UNION {{ATimeout(i, t) : t \in s.timers[i + 1]} : i \in OIds(sys)}

OIgnored(sys, s, a) ==
  CASE a.k = "deliver" ->
         LET h == OnDeliver(s.actors[a.dst + 1], a.src, a.msg, Ignores(sys, a.dst, a.msg), RepliesFor(sys, a.dst, a.msg.m)) IN ~h.touch /\ h.sends = <<>> /\ sys.network # "ordered"
    [] a.k = "timeout" -> s.actors[a.id + 1].pending = {}          \* only the timer would be re-armed
    [] OTHER -> FALSE

OApply(sys, s, a) ==
  CASE a.k = "drop" -> [s EXCEPT !.net = DropNet(@, Env(a.src, a.dst, a.msg))]
    [] a.k = "deliver" ->
         LET i == a.dst
             h == OnDeliver(s.actors[i + 1], a.src, a.msg, Ignores(sys, i, a.msg), RepliesFor(sys, i, a.msg.m))
         IN [s EXCEPT !.net = SendAllFrom(DeliverNet(@, Env(a.src, a.dst, a.msg)), i, h.sends),
                      !.actors[i + 1] = h.L]
    [] a.k = "timeout" ->
         LET i == a.id  h == OnNetTimer(s.actors[i + 1]) IN
         [s EXCEPT !.net = SendAllFrom(@, i, h.sends)]

-----------------------------------------------------------------------------
(* C16 as state predicates (evaluated on the spec's states by TLC and, by the judge, on every recorded
   state of the real model).  Message values are unique per sender. *)
(* what snd's wrapped actor has sent to rcv so far, by its own log *)
SentTo(s, snd, rcv) ==
  LET sc == s.actors[snd + 1].sent
      RECURSIVE F(_) F(q) == IF q = <<>> THEN <<>> ELSE (IF Head(q).dst = rcv THEN <<Head(q).m>> ELSE <<>>) \o F(Tail(q))
  IN F(sc)
HandedFrom(s, rcv, snd) ==
  LET hd == s.actors[rcv + 1].handed
      RECURSIVE F(_) F(q) == IF q = <<>> THEN <<>> ELSE (IF Head(q).src = snd THEN <<Head(q).m>> ELSE <<>>) \o F(Tail(q))
  IN F(hd)
IsPrefixOf(a, b) == Len(a) <= Len(b) /\ \A i \in 1..Len(a) : a[i] = b[i]

(* handed over exactly once and in order: what was handed over is a prefix of what was sent to that peer *)
Recorded(sys, s, snd, rcv) == LET q == SentTo(s, snd, rcv)
                              RECURSIVE F(_) F(x) == IF x = <<>> THEN <<>> ELSE (IF IgnoresVal(sys, rcv, Head(x)) THEN <<>> ELSE <<Head(x)>>) \o F(Tail(x))
                          IN F(q)
PrefixOK(sys, s) == \A snd, rcv \in OIds(sys) : IsPrefixOf(HandedFrom(s, rcv, snd), Recorded(sys, s, snd, rcv))
(* a message is never acknowledged (dropped from pending) before it was handed over *)
AckedImpliesHanded(sys, s) ==
  \A snd, rcv \in OIds(sys) :
     \A i \in DOMAIN SentTo(s, snd, rcv) :
        LET m == SentTo(s, snd, rcv)[i] IN
        (~\E p \in s.actors[snd + 1].pending : p.dst = rcv /\ p.m = m) =>
           /\ IgnoresVal(sys, rcv, m) \/ \E j \in DOMAIN HandedFrom(s, rcv, snd) : HandedFrom(s, rcv, snd)[j] = m
           \* ... and the receiver's sequencer has moved past it (messages to one peer are numbered 1, 2, ... in send order),
           \* which is what "handed over" means for a message the wrapped actor chose to ignore
           /\ LastOf(s.actors[rcv + 1], snd) >= i
(* once all retransmissions are acknowledged the two sequences are equal *)
CompleteOK(sys, s) ==
  (\A i \in OIds(sys) : s.actors[i + 1].pending = {}) =>
     \A snd, rcv \in OIds(sys) : HandedFrom(s, rcv, snd) = Recorded(sys, s, snd, rcv)

AbsLocal(j) ==
  [next |-> IF PerDst /\ "next_seq" \in DOMAIN j THEN {<<j.next_seq[i].dst, j.next_seq[i].n>> : i \in DOMAIN j.next_seq} ELSE 0,
   pending |-> {[seq |-> j.pending[i].seq, dst |-> j.pending[i].dst, m |-> j.pending[i].m] : i \in DOMAIN j.pending},
   last |-> {<<j.last[i].src, j.last[i].seq>> : i \in DOMAIN j.last},
   handed |-> j.handed,
   sent |-> j.sent]
OAbs(j) == [Abs(j) EXCEPT !.actors = [i \in DOMAIN j.actors |-> AbsLocal(j.actors[i])]]
\* (the as-found variant's single counter has no counterpart in the repaired code: not compared there)
NoNext(s) == IF PerDst THEN s ELSE [s EXCEPT !.actors = [i \in DOMAIN s.actors |-> [s.actors[i] EXCEPT !.next = 0]]]
=============================================================================
