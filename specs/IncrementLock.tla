----------------------------- MODULE IncrementLock -----------------------------
(***************************************************************************)
(* examples/increment_lock.rs as a specification: N threads increment a    *)
(* shared counter under a lock (pc 0 -lock-> 1 -read-> 2 -write-> 3        *)
(* -release-> 4).  All threads are identical: the example's                *)
(* `representative()` sorts the vector of thread states, so with           *)
(* `.symmetry()` the real DFS checker must count exactly one state per     *)
(* orbit = TLC's distinct states under the VIEW that forgets which thread  *)
(* is which (the bag of thread states); without symmetry it must count     *)
(* TLC's distinct states.  Both invariants of the example hold.            *)
(***************************************************************************)
EXTENDS Naturals, FiniteSets
CONSTANT N
Threads == 1..N
VARIABLES i, lock, s
vars == <<i, lock, s>>
Init == i = 0 /\ lock = FALSE /\ s = [n \in Threads |-> [t |-> 0, pc |-> 0]]
Lock(n)    == s[n].pc = 0 /\ ~lock /\ s' = [s EXCEPT ![n].pc = 1] /\ lock' = TRUE /\ UNCHANGED i
Read(n)    == s[n].pc = 1 /\ s' = [s EXCEPT ![n] = [t |-> i, pc |-> 2]] /\ UNCHANGED <<i, lock>>
Write(n)   == s[n].pc = 2 /\ s' = [s EXCEPT ![n].pc = 3] /\ i' = s[n].t + 1 /\ UNCHANGED lock
Release(n) == s[n].pc = 3 /\ lock /\ s' = [s EXCEPT ![n].pc = 4] /\ lock' = FALSE /\ UNCHANGED i
Next == \E n \in Threads : Lock(n) \/ Read(n) \/ Write(n) \/ Release(n)
Spec == Init /\ [][Next]_vars
Fin   == Cardinality({n \in Threads : s[n].pc >= 3}) = i
Mutex == Cardinality({n \in Threads : s[n].pc >= 1 /\ s[n].pc < 4}) <= 1
(* the orbit of a state under permutations of the threads is identified by the bag of thread states *)
Bag == [x \in {s[n] : n \in Threads} |-> Cardinality({n \in Threads : s[n] = x})]
SymView == <<i, lock, Bag>>
=============================================================================
