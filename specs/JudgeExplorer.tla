----------------------------- MODULE JudgeExplorer -----------------------------
(* TLC as judge of the answers of the real Explorer web service, the Path API and the on-demand checker (C19).
   Env: GRAPHS, RECS (one record per graph), OUT. *)
EXTENDS Explorer, Json, IOUtils

Graphs == ndJsonDeserialize(IOEnv.GRAPHS)
Recs   == ndJsonDeserialize(IOEnv.RECS)

PropNamed(g, nm) == g.props[CHOOSE i \in DOMAIN g.props : g.props[i].name = nm]

WebChecks(g, w) ==
  LET reach == Reach(g)
      s1 == w.status1
      hasPath(nm) == \E i \in DOMAIN s1.properties : s1.properties[i].name = nm /\ s1.properties[i].has_path
      allDisc == \A i \in DOMAIN g.props : hasPath(g.props[i].name)
      rawOf(lbl) == w.raw[CHOOSE i \in DOMAIN w.raw : w.raw[i].label = lbl]
  IN
  [ \* state endpoint: exactly the model's enabled actions with their successors; 404 iff no execution
    states_code |-> \A i \in DOMAIN w.queries : (w.queries[i].code = 200) <=> IsExec(g, w.queries[i].path),
    states_not_found |-> \A i \in DOMAIN w.queries : ~IsExec(g, w.queries[i].path) => w.queries[i].code = 404,
    states_items |-> \A i \in DOMAIN w.queries :
                        (w.queries[i].code = 200 /\ IsExec(g, w.queries[i].path)) =>
                           ItemsMatch(w.queries[i].items, StatesView(g, w.queries[i].path)),
    init_view |-> /\ w.init_code = 200
                  /\ Len(w.init_view) = Len(g.init)
                  /\ \A i \in DOMAIN g.init : w.init_view[i].node = g.init[i] /\ w.init_view[i].has_state,
    raw_invalid |-> \A lbl \in {"unknown_fp", "zero", "garbage", "garbage_tail", "no_such_endpoint"} : rawOf(lbl).code = 404,
    trailing_slash |-> LET r == rawOf("trailing_slash") IN
                       IF r.init \in InitSet(g) THEN r.code = 200 /\ ItemsMatch(r.items, StatesView(g, <<r.init>>)) ELSE r.code = 404,
    \* status endpoint
    status_before |-> w.status0_code = 200 /\ w.status0.ok /\ w.status0.unique_state_count = Cardinality(InitB(g)),
    status_done |-> w.rtc_code = 200 /\ s1.ok /\ s1.done,
    status_counts |-> (s1.ok /\ ~allDisc) => (s1.unique_state_count = Cardinality(reach) /\ s1.state_count >= s1.unique_state_count),
    status_props |-> s1.ok =>
                       /\ Len(s1.properties) = Len(g.props)
                       /\ \A i \in DOMAIN g.props :
                             LET p == g.props[i]  v == s1.properties[i] IN
                             /\ v.name = p.name /\ v.kind = p.kind
                             /\ v.has_path => ValidWitness(g, p, v.path, FALSE)
                             /\ (~allDisc /\ p.kind = "always") => (v.has_path <=> Violated(g, p))
                             /\ (~allDisc /\ p.kind = "sometimes") => (v.has_path <=> Witnessed(g, p))
  ]

PathChecks(g, ps) ==
  [ path_api |-> \A i \in DOMAIN ps :
       LET r == ps[i]
           want == ExecActs(g, r.init, r.acts)
       IN /\ ~r.panicked
          /\ r.some <=> want # <<>>
          /\ r.some => /\ r.states = want                 \* from_actions / into_states
                       /\ r.encoded = want                \* encode() denotes the same execution
                       /\ r.into_actions = r.acts
                       /\ r.last = Last(want)
                       /\ r.vec_len = Len(want) ]

(* requested so far = everything asked for up to this step: a request for a state that was not pending yet stays queued
   and may be honoured once the state becomes pending; nothing that was never requested is computed *)
RECURSIVE StepsOK(_, _, _, _)
StepsOK(g, steps, evaluated, requested) ==
  IF steps = <<>> THEN TRUE
  ELSE LET st == Head(steps)
           req == requested \cup {st.node}
           now == Range(st.visited_so_far)
           mustEval == st.node \in Pending(g, evaluated)
       IN /\ mustEval => st.evaluated
          /\ st.evaluated <=> st.node \in now
          /\ now \subseteq req                                   \* nothing that was not asked for is computed
          /\ now \subseteq Reach(g)
          /\ StepsOK(g, Tail(steps), evaluated \cup now, req)

OnDemandChecks(g, od) ==
  [ ondemand_lazy |-> \A i \in DOMAIN od : od[i].idle_visits = 0 /\ (od[i].done_before_rtc => Range(od[i].before_rtc) = Reach(g)),
    ondemand_requests |-> \A i \in DOMAIN od : StepsOK(g, od[i].steps, {}, {}),
    ondemand_completion |-> \A i \in DOMAIN od :
                               /\ od[i].is_done
                               /\ Range(od[i].visited) = Reach(g)
                               /\ Len(od[i].visited) = Cardinality(Reach(g))
                               /\ od[i].unique = Cardinality(Reach(g)) /\ od[i].total >= od[i].unique,
    \* ... finishes like BFS: the verdicts are those of the exhaustive search (eventually-properties: on forests, where every
    \* state has one path and the verdict does not depend on the order of the search)
    ondemand_verdicts |-> \A i \in DOMAIN od :
                             (od[i].is_done /\ Range(od[i].visited) = Reach(g)) =>
                               \A m \in DOMAIN g.props :
                                  LET p == g.props[m]
                                      disc == \E k \in DOMAIN od[i].discoveries : od[i].discoveries[k].name = p.name
                                  IN CASE p.kind = "always"     -> disc <=> Violated(g, p)
                                       [] p.kind = "sometimes"  -> disc <=> Witnessed(g, p)
                                       [] p.kind = "eventually" -> IsForest(g) => (disc <=> EvCex(g, p))
                                       [] OTHER -> TRUE,
    \* paths rebuilt from fingerprints (discoveries), from their action lists and the model denote the same execution
    ondemand_paths |-> \A i \in DOMAIN od : \A k \in DOMAIN od[i].discoveries :
                          LET x == od[i].discoveries[k] IN
                          /\ ValidActs(g, x.states, x.acts)
                          /\ x.via_actions = x.states
                          /\ \E m \in DOMAIN g.props : g.props[m].name = x.name /\ ValidWitness(g, g.props[m], x.states, FALSE) ]

Merge(a, b) == [f \in DOMAIN a \cup DOMAIN b |-> IF f \in DOMAIN a THEN a[f] ELSE b[f]]
Judged ==
  [ i \in DOMAIN Recs |->
      LET r == Recs[i]  g == Graphs[r.gi]
          k == Merge(Merge(IF r.has_web THEN WebChecks(g, r.web) ELSE [none |-> TRUE], PathChecks(g, r.paths)), OnDemandChecks(g, r.ondemand))
      IN [gi |-> r.gi, failed |-> {f \in DOMAIN k : ~k[f]}, n_queries |-> IF r.has_web THEN Len(r.web.queries) ELSE 0,
          n_paths |-> Len(r.paths), n_od |-> Len(r.ondemand)] ]
ASSUME JsonSerialize(IOEnv.OUT, [n |-> Len(Recs), judged |-> Judged])
=============================================================================
