-------------------------------- MODULE Identity --------------------------------
(***************************************************************************)
(* C04 at value level.  The harness enumerates abstract values of the       *)
(* hashable containers (adjacent sets, vectors of sets / timer sets, maps,   *)
(* nested sets, adjacent vector clocks, the three network kinds) and builds  *)
(* each one in several concrete ways (insertion order, capacity, removed     *)
(* extra elements, trailing zeros, send order).  `key' is the canonical      *)
(* rendering of the abstract value, `stream' the bytes fed to the Hasher.    *)
(* Identity is faithful iff, per category, stream is an INJECTIVE FUNCTION   *)
(* of key:  equal values never split (function), distinct values never      *)
(* merge (injective), and == agrees with the key.  Env: RECS, OUT.            *)
(***************************************************************************)
EXTENDS Naturals, Sequences, FiniteSets, Json, IOUtils, TLC
Recs == ndJsonDeserialize(IOEnv.RECS)
Cats == {Recs[i].cat : i \in DOMAIN Recs}
Of(c) == {i \in DOMAIN Recs : Recs[i].cat = c}
Pairs(c) == {<<Recs[i].key, Recs[i].stream>> : i \in Of(c)}
Keys(c) == {Recs[i].key : i \in Of(c)}
Streams(c) == {Recs[i].stream : i \in Of(c)}
(* equal abstract values feed equal streams however they were built *)
NeverSplit(c) == Cardinality(Pairs(c)) = Cardinality(Keys(c))
(* distinct abstract values feed distinct streams *)
NeverMerge(c) == Cardinality(Streams(c)) = Cardinality(Keys(c))
(* == agrees with the abstract value: a concrete value compares equal (in both orders: every value is compared with every
   value of its category) exactly to the constructions of the same abstract value *)
EqExact(c) == \A i \in Of(c) : "eq_keys" \in DOMAIN Recs[i] => {Recs[i].eq_keys[k] : k \in DOMAIN Recs[i].eq_keys} = {Recs[i].key}
Verdict == [c \in Cats |-> [split |-> ~NeverSplit(c), merge |-> ~NeverMerge(c), eq_wrong |-> ~EqExact(c),
                            values |-> Cardinality(Keys(c)), built |-> Cardinality(Of(c))]]
ASSUME JsonSerialize(IOEnv.OUT, [n |-> Len(Recs), cats |-> {[cat |-> c, v |-> Verdict[c]] : c \in Cats}])
=============================================================================
