------------------------------- MODULE Graph -------------------------------
(***************************************************************************)
(* What "reachable", "witness", "maximal path", "shortest" MEAN for a      *)
(* finite model given as a table.  This is the semantic yardstick for the  *)
(* search engine of stateright (properties C01 C02 C03 C11 C12 C13).       *)
(*                                                                         *)
(* A graph g is a record                                                   *)
(*   n     number of nodes (states are 1..n)                               *)
(*   init  sequence of initial states (may contain out-of-boundary nodes)  *)
(*   succ  succ[s] = sequence over the actions enabled in s of the target  *)
(*         node, or 0 when the action is ignored (next_state = None)       *)
(*   inb   inb[s] = s is within the boundary                               *)
(*   props sequence of [kind, name, sat]; kind in always/sometimes/        *)
(*         eventually, sat = sequence of nodes where the condition holds   *)
(*   rep   optional: rep[s] = representative of s under the symmetry       *)
(* Everything is an operator over g so that one TLC run can judge many     *)
(* graphs (records are loaded from JSON by the judges).                    *)
(***************************************************************************)
EXTENDS Naturals, Sequences, FiniteSets
FSE == INSTANCE FiniteSetsExt   \* (named: FiniteSetsExt brings in Functions!Range, which this module also defines)

Range(f) == {f[i] : i \in DOMAIN f}
Last(s) == s[Len(s)]

Nodes(g)       == 1..g.n
InitSet(g)     == Range(g.init)
IsTable(g)     == g.family \in {"", "table"}
\* big (formula) graphs: optionally everything with s % m = r is outside the boundary (inb_mod = <<m, r>>)
InB(g, s)      == IF IsTable(g) THEN g.inb[s]
                  ELSE IF g.family = "fringed" THEN s < g.n
                  ELSE IF "inb_mod" \in DOMAIN g /\ Len(g.inb_mod) = 2 THEN s % g.inb_mod[1] # g.inb_mod[2] ELSE TRUE
InitB(g)       == {s \in InitSet(g) : InB(g, s)}
(* Arithmetic families (large graphs given by formulas; the same formulas are implemented by the
   harness's TableModel): ordered successor list, 0 = ignored action *)
FamilySucc(g, s) ==
  CASE g.family = "affine" ->
         LET i == s - 1 IN <<((g.params[1] * i + g.params[2]) % g.n) + 1, ((i + g.params[3]) % g.n) + 1>>
    [] g.family = "grid" ->
         LET w == g.params[1]  h == g.params[2]  i == s - 1  x == i % w  y == i \div w IN
         <<IF x + 1 < w THEN y * w + x + 2 ELSE 0, IF y + 1 < h THEN (y + 1) * w + x + 1 ELSE 0>>
    [] g.family = "fringed" ->      \* a w x h grid (right, down) whose every state also has f successors outside the boundary (node n)
         LET w == g.params[1]  h == g.params[2]  f == g.params[3]  i == s - 1  x == i % w  y == i \div w IN
         IF s = g.n THEN <<>>
         ELSE <<IF x + 1 < w THEN y * w + x + 2 ELSE 0, IF y + 1 < h THEN (y + 1) * w + x + 1 ELSE 0>> \o [k \in 1..f |-> g.n]
    [] g.family = "ladder" ->       \* two rails of L states; rail state (side, lvl) -> next rail state, join lvl; joins are terminal
         LET L == g.params[1] IN
         IF s <= 2 * L THEN LET side == (s - 1) \div L  lvl == (s - 1) % L IN
                            <<IF lvl + 1 < L THEN side * L + lvl + 2 ELSE 0, 2 * L + lvl + 1>>
         ELSE <<>>
    [] g.family = "twochains" ->    \* two disjoint chains (odd / even nodes) starting in the two initial states 1 and 2
         <<IF s + 2 <= g.n THEN s + 2 ELSE 0>>
    [] g.family = "tree" ->
         <<IF 2 * s <= g.n THEN 2 * s ELSE 0, IF 2 * s + 1 <= g.n THEN 2 * s + 1 ELSE 0>>
    [] g.family = "chainbush" ->
         LET k == g.params[1] IN
         IF s < k THEN <<s + 1>> ELSE IF s = k THEN [i \in 1..(g.n - k) |-> k + i] ELSE <<>>
SuccList(g, s) == IF IsTable(g) THEN g.succ[s] ELSE FamilySucc(g, s)
\* targets of the defined (non-ignored) transitions of s
Defined(g, s)  == Range(SuccList(g, s)) \ {0}
\* ... that stay inside the boundary
SuccB(g, s)    == {t \in Defined(g, s) : InB(g, t)}
SuccBF(g)      == [s \in Nodes(g) |-> SuccB(g, s)]
\* a state from which no transition stays inside the boundary
Terminal(g, s) == SuccB(g, s) = {}

(* least fixpoint: everything reachable from `frontier' through sf.  One semi-naive step per fold iteration; the
   number of BFS layers is at most the number of nodes, and a step on an empty frontier is the identity.  (Written as
   a fold, which TLC evaluates iteratively: the recursive form overflows the Java stack on graphs thousands of layers
   deep.) *)
CloStep(sf, p) ==
  IF p[2] = {} THEN p
  ELSE LET nxt == (UNION {sf[s] : s \in p[2]}) \ p[1]
       IN  <<p[1] \cup nxt, nxt>>
Clo(sf, seen, frontier) ==
  FSE!FoldSet(LAMBDA i, p : CloStep(sf, p), <<seen, frontier>>, 1..Cardinality(DOMAIN sf))[1]

\* (the ladder family is thousands of levels deep, too deep for the recursive fixpoint in TLC; both rails start in
\*  init, so every node is reachable -- TLC's own exploration of the ladder (MCGraph) confirms the count)
Reach(g) == IF g.family \in {"ladder", "twochains"} THEN Nodes(g) ELSE Clo(SuccBF(g), InitB(g), InitB(g))

(* BFS layers; Layers(g)[d] = states whose shortest in-boundary path from an
   in-boundary initial state has d states (d-1 transitions) *)
LayersStep(sf, p) ==
  IF p[2] = {} THEN p
  ELSE LET nxt == (UNION {sf[s] : s \in p[2]}) \ p[1]
       IN  <<p[1] \cup nxt, nxt, Append(p[3], p[2])>>
LayersFrom(sf, seen, frontier, acc) ==
  FSE!FoldSet(LAMBDA i, p : LayersStep(sf, p), <<seen, frontier, acc>>, 1..(Cardinality(DOMAIN sf) + 1))[3]
Layers(g) == LayersFrom(SuccBF(g), InitB(g), InitB(g), <<>>)
DepthIn(layers, s) == CHOOSE d \in 1..Len(layers) : s \in layers[d]

\* where a property's condition holds: an explicit list, or (big graphs) everywhere / nowhere / s % m = r
SatAt(p, s) == IF "mode" \in DOMAIN p /\ p.mode # "list"
               THEN CASE p.mode = "all" -> TRUE [] p.mode = "none" -> FALSE [] p.mode = "mod" -> s % p.m = p.r
               ELSE s \in Range(p.sat)
Sat(p) == Range(p.sat)
Violated(g, p)  == \E s \in Reach(g) : ~SatAt(p, s)
Witnessed(g, p) == \E s \in Reach(g) : SatAt(p, s)

(***************************************************************************)
(* An eventually-property has a counterexample iff some MAXIMAL in-boundary *)
(* path from an initial state never meets sat: it ends in a terminal state  *)
(* or runs forever (in a finite graph: reaches a cycle) inside the non-sat  *)
(* region.                                                                  *)
(***************************************************************************)
NonSat(g, p) == {s \in Nodes(g) : InB(g, s) /\ ~SatAt(p, s)}
EvRegion(g, p) ==
  LET ns == NonSat(g, p)
      sf == [s \in Nodes(g) |-> SuccB(g, s) \cap ns]
      i0 == InitB(g) \cap ns
  IN  Clo(sf, i0, i0)
EvCex(g, p) ==
  LET ns == NonSat(g, p)
      sf == [s \in Nodes(g) |-> SuccB(g, s) \cap ns]
      r  == EvRegion(g, p)
  IN  \E s \in r : \/ Terminal(g, s)
                   \/ s \in Clo(sf, sf[s], sf[s])     \* s lies on a cycle inside the region

(* every reachable state is reachable by exactly one path (of states) *)
IsForest(g) ==
  LET r == Reach(g)
  IN  /\ \A i, j \in DOMAIN g.init : i # j => g.init[i] # g.init[j]
      /\ \A t \in r : Cardinality({s \in r : t \in SuccB(g, s)}) + (IF t \in InitB(g) THEN 1 ELSE 0) = 1

(* a real execution that stays inside the boundary *)
ValidPath(g, path) ==
  /\ Len(path) >= 1
  /\ path[1] \in InitSet(g)
  /\ \A i \in 1..Len(path) : path[i] \in Nodes(g) /\ InB(g, path[i])
  /\ \A i \in 1..(Len(path) - 1) : path[i + 1] \in Defined(g, path[i])

(* the action indices reported along a path really produce it *)
ValidActs(g, path, acts) ==
  /\ Len(acts) + 1 = Len(path)
  /\ \A i \in 1..Len(acts) : /\ acts[i] \in DOMAIN SuccList(g, path[i])
                             /\ SuccList(g, path[i])[acts[i]] = path[i + 1]

RepOf(g, s) == IF "rep" \in DOMAIN g /\ Len(g.rep) > 0 THEN g.rep[s] ELSE s

(***************************************************************************)
(* C03: what a reported discovery must be.  `sim' = produced by the        *)
(* simulation checker (which may also stop where the path closes a cycle,  *)
(* up to symmetry).                                                        *)
(***************************************************************************)
ValidWitness(g, p, path, sim) ==
  /\ ValidPath(g, path)
  /\ CASE p.kind = "always"     -> ~SatAt(p, Last(path))
       [] p.kind = "sometimes"  -> SatAt(p, Last(path))
       [] p.kind = "eventually" ->
            /\ \A i \in 1..Len(path) : ~SatAt(p, path[i])
            /\ \/ Terminal(g, Last(path))
               \/ sim /\ \E i \in 1..(Len(path) - 1) : RepOf(g, path[i]) = RepOf(g, Last(path))

(* C13: number of states on a shortest path to a state witnessing p *)
MinWitnessDepth(g, p) ==
  LET ls == Layers(g)
      good(s) == IF p.kind = "always" THEN ~SatAt(p, s) ELSE SatAt(p, s)
      ds == {d \in 1..Len(ls) : \E s \in ls[d] : good(s)}
  IN  IF ds = {} THEN 0 ELSE CHOOSE d \in ds : \A e \in ds : d <= e

(***************************************************************************)
(* As a temporal specification (used to let TLC itself enumerate the       *)
(* reachable set of a graph, the independent count oracle): see MCGraph.   *)
(***************************************************************************)
=============================================================================
