----------------------------- MODULE JudgeBigRuns -----------------------------
(* TLC as judge of real multi-threaded checker runs on LARGE graphs (C05, C01): the visitor log is
   recorded in light form (node, parent, depth, thread).  Reach(g) is computed once per graph.
   Env: GRAPH (one graph, json line), RUNS (ndjson of runs on that graph), OUT. *)
EXTENDS CheckerObs, Json, IOUtils, TLC

(* the inputs are read once and kept in TLC registers, like Reach(G) below *)
ASSUME TLCSet(3, ndJsonDeserialize(IOEnv.GRAPH)[1]) /\ TLCSet(4, ndJsonDeserialize(IOEnv.RUNS))
G    == TLCGet(3)
Runs == TLCGet(4)

(* Reach(G) and Layers(G) are computed ONCE and kept in TLC registers (a zero-arity definition over IOEnv is not a
   constant for TLC: it would be re-evaluated at every use, 16 s each on a 60 000-state graph) *)
ASSUME TLCSet(1, Reach(G)) /\ TLCSet(2, Layers(G))
ReachG  == TLCGet(1)
LayersG == TLCGet(2)
ViolatedG(p)  == \E s \in ReachG : ~SatAt(p, s)
WitnessedG(p) == \E s \in ReachG : SatAt(p, s)
MinWitnessDepthG(p) ==
  LET ls == LayersG
      good(s) == IF p.kind = "always" THEN ~SatAt(p, s) ELSE SatAt(p, s)
      ds == {d \in 1..Len(ls) : \E s \in ls[d] : good(s)}
  IN  IF ds = {} THEN 0 ELSE CHOOSE d \in ds : \A e \in ds : d <= e

BigChecks(run) ==
  LET cfg == run.cfg
      d   == run.done
      vis == run.visits
      vn  == {vis[i].node : i \in DOMAIN vis}
      normal == d.joined /\ ~d.join_panicked /\ ~d.spawn_panicked
      stop == StopReason(G, run)
      comp == normal /\ Exhaustive(cfg) /\ ~stop /\ cfg.target_depth = 0
      disc(nm) == \E i \in DOMAIN d.discoveries : d.discoveries[i].name = nm
  IN
  [ joined |-> [a |-> TRUE, c |-> d.joined /\ ~d.spawn_panicked],
    \* every visit is shown a real step: its parent is an evaluated state one level up and node is a successor of it
    edges |-> [a |-> Len(vis) > 0,
               \* (vn is mentioned once, outside the quantifier: TLC re-evaluates a LET definition at every use)
               c |-> /\ \A i \in DOMAIN vis :
                          IF vis[i].parent = 0 THEN vis[i].node \in InitB(G) /\ vis[i].depth = 1
                          ELSE vis[i].node \in SuccB(G, vis[i].parent)
                     /\ ({vis[i].parent : i \in DOMAIN vis} \ {0}) \subseteq vn],
    subset |-> [a |-> Len(vis) > 0, c |-> vn \subseteq ReachG],
    once |-> [a |-> Len(vis) > 0, c |-> Cardinality(vn) = Len(vis)],
    complete |-> [a |-> comp /\ ~cfg.no_visitor,
                  c |-> (comp /\ ~cfg.no_visitor) => /\ vn = ReachG
                                /\ d.unique = Cardinality(ReachG)
                                /\ d.total >= d.unique
                                /\ d.is_done],
    \* verdicts are schedule independent: determined by the graph
    verdicts |-> [a |-> comp,
                  c |-> comp => \A i \in DOMAIN G.props :
                           LET p == G.props[i] IN
                           CASE p.kind = "always"    -> disc(p.name) <=> ViolatedG(p)
                             [] p.kind = "sometimes" -> disc(p.name) <=> WitnessedG(p)
                             [] OTHER -> TRUE],
    \* (the visited set is only known when the recording visitor was on)
    stop_reason |-> [a |-> normal /\ Exhaustive(cfg) /\ cfg.target_depth = 0 /\ ~cfg.no_visitor /\ vn # ReachG,
                     c |-> (normal /\ Exhaustive(cfg) /\ cfg.target_depth = 0 /\ ~cfg.no_visitor /\ vn # ReachG) => stop],
    \* every state is evaluated exactly once also when the visitor is off: the model counts evaluations itself
    evals_once |-> [a |-> comp /\ "evals" \in DOMAIN d /\ cfg.no_visitor,
                    c |-> (comp /\ "evals" \in DOMAIN d /\ cfg.no_visitor) => (d.evals = Cardinality(ReachG) /\ d.unique = Cardinality(ReachG))],
    \* C12: the target counts really generated in-boundary states (see CheckerObs!target_real)
    target_real |-> [a |-> normal /\ cfg.target_states > 0 /\ Exhaustive(cfg) /\ vn # ReachG /\ ~AllDiscovered(G, run)
                           /\ ~Matches(cfg.finish, DiscNames(run), G.props),
                     c |-> (normal /\ cfg.target_states > 0 /\ Exhaustive(cfg) /\ vn # ReachG /\ ~AllDiscovered(G, run)
                            /\ ~Matches(cfg.finish, DiscNames(run), G.props)) =>
                           /\ d.total >= cfg.target_states
                           /\ Cardinality(InitB(G)) + SumOver(vn, [v \in vn |-> Len(SelectSeq(SuccList(G, v), LAMBDA t : t # 0 /\ InB(G, t)))]) >= cfg.target_states],
    \* C05: when one worker stops because model code panicked, the others stop too: each of them evaluates at most the
    \* rest of its current block (1500 states) once the market is closed.  The model counts the evaluations begun after
    \* the panicking evaluation (and slows them down to 500us each); the slack covers the unwinding of the panicking
    \* worker up to the closing of the market.
    stop_after_panic |-> [a |-> G.poison # 0 /\ "evals_after_poison" \in DOMAIN d /\ d.joined,
                          c |-> (G.poison # 0 /\ "evals_after_poison" \in DOMAIN d /\ d.joined) =>
                                   d.evals_after_poison <= cfg.threads * 1500 + 3000],
    \* C13 on big graphs: reported always/sometimes witnesses of 1-thread BFS are shortest
    shortest |-> [a |-> cfg.strategy = "bfs" /\ cfg.threads = 1 /\ Len(d.discoveries) > 0,
                  c |-> (cfg.strategy = "bfs" /\ cfg.threads = 1) =>
                          \A i \in DOMAIN d.discoveries :
                             LET x == d.discoveries[i]  p == PropNamed(G, x.name) IN
                             p.kind \in {"always", "sometimes"} => Len(x.states) = MinWitnessDepthG(p)],
    \* BFS with one thread still visits by depth
    bfs_depth |-> [a |-> cfg.strategy = "bfs" /\ cfg.threads = 1,
                   c |-> (cfg.strategy = "bfs" /\ cfg.threads = 1) => \A i \in DOMAIN vis : i > 1 => vis[i - 1].depth <= vis[i].depth]
  ]

Judged ==
  [ r \in DOMAIN Runs |->
      LET k == BigChecks(Runs[r]) IN
      [rid |-> Runs[r].rid, failed |-> {f \in DOMAIN k : ~k[f].c}, applied |-> {f \in DOMAIN k : k[f].a},
       threads_used |-> Cardinality({Runs[r].visits[i].thread : i \in DOMAIN Runs[r].visits})] ]
ASSUME JsonSerialize(IOEnv.OUT, [n |-> Len(Runs), reach |-> Cardinality(ReachG), judged |-> Judged])
=============================================================================
