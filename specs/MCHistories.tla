----------------------------- MODULE MCHistories -----------------------------
(***************************************************************************)
(* The history generator is itself a specification: TLC enumerates ALL     *)
(* histories within the bounds (every interleaving of invocations and      *)
(* returns of `Threads' threads over the operation/return alphabet of the  *)
(* object kind, including mismatched return kinds), plus ill-formed steps  *)
(* (second invocation, orphan return) followed by up to two more events.   *)
(* Every history is printed as one JSON line for replay into the real      *)
(* testers, and the theorems below are checked on every one of them.       *)
(***************************************************************************)
EXTENDS Consistency, Json, TLC

CONSTANTS Kind, Threads, V, MaxLen, BadUpTo,
          Typed     \* TRUE: returns have the kind that fits the operation in flight and reads return a value that was
                    \* written (or the initial one) -- used for SAMPLING long histories, where uniformly random returns
                    \* would almost never be consistent; FALSE: the full alphabet (exhaustive enumeration)

VARIABLE h
Inits == Ops(Kind, V)
Returns == Rets(Kind, V, 2)
Events == {[k |-> "inv", t |-> t, x |-> o] : t \in Threads, o \in Inits}
     \cup {[k |-> "ret", t |-> t, x |-> r] : t \in Threads, r \in Returns}

LastInv(t) == LET ix == {i \in DOMAIN h : h[i].t = t /\ h[i].k = "inv"} IN
              IF ix = {} THEN [k |-> "none", v |-> 0] ELSE h[CHOOSE i \in ix : \A j \in ix : j <= i].x
Written == {0} \cup {h[i].x.v : i \in {j \in DOMAIN h : h[j].k = "inv" /\ h[j].x.k \in {"w", "push"}}}
Fits(e) ==
  e.k = "inv" \/ ~Typed \/
  LET o == LastInv(e.t) IN
  CASE o.k = "w"    -> e.x.k \in (IF Kind = "wo" THEN {"wok", "wfail"} ELSE {"wok"})
    [] o.k = "r"    -> e.x.k = "rok" /\ e.x.v \in Written
    [] o.k = "push" -> e.x.k = "pushok"
    [] o.k = "pop"  -> e.x.k = "popok" /\ e.x.v \in Written
    [] o.k = "len"  -> e.x.k = "lenok"
    [] OTHER -> TRUE

Init == h = <<>>
Next ==
  /\ Len(h) < MaxLen
  /\ \E e \in Events :
       LET g == Append(h, e) IN
       /\ h' = g
       /\ Fits(e)
       /\ \/ WellFormed(g)
          \/ WellFormed(h) /\ Len(h) <= BadUpTo               \* the step that breaks well-formedness
          \/ ~WellFormed(h) /\ Len(h) < IllFormedAt(h) + 2    \* at most two events after it
Spec == Init /\ [][Next]_h

init == InitObj(Kind)

(* theorems about the definitions, checked on every enumerated history *)
LinImpliesSC == IsLinearizable(Kind, init, h) => IsSeqConsistent(Kind, init, h)
PrefixClosed ==
  Len(h) > 0 =>
    LET p == SubSeq(h, 1, Len(h) - 1) IN
    \* linearizability is prefix-closed; sequential consistency is not (a later invocation may be
    \* ordered first: <<inv r, ret 1, inv w1>> is SC, its prefix <<inv r, ret 1>> is not)
    IsLinearizable(Kind, init, h) => IsLinearizable(Kind, init, p)
EmptyConsistent == h = <<>> => IsLinearizable(Kind, init, h)
(* one line per history *)
Emit == PrintT(<<"HIST", ToJson([kind |-> Kind, h |-> h])>>)
=============================================================================
