--------------------------------- MODULE Abd ---------------------------------
(***************************************************************************)
(* examples/linearizable-register.rs as a specification: the ABD           *)
(* ("Sharing Memory Robustly in Message-Passing Systems", Attiya, Bar-Noy, *)
(* Dolev) register over S servers, driven by C RegisterActor clients (one  *)
(* Put, then one Get) over an unordered non-duplicating network, with the  *)
(* linearizability tester fed by the record hooks.  Same state structure   *)
(* as SingleCopy.tla (client states, server states, network multiset,      *)
(* tester state; the global event order `hist' is hidden by the VIEW).     *)
(*                                                                         *)
(* Server: seq = <<clock, id>>, val, phase.  Put/Get (only when idle):     *)
(* phase 1, Query to all peers, own (seq, val) recorded; AckQuery for the  *)
(* current request: recorded; at a majority: take the largest seq (a write *)
(* bumps the clock and installs its value), Record to all peers, adopt it  *)
(* if newer, phase 2; Record: acknowledged, adopted if newer; AckRecord    *)
(* for the current request from a new peer: counted; at a majority the     *)
(* client is answered (PutOk / GetOk) and the server is idle again.        *)
(* Oracle: 544 reachable states for S = 2, C = 2 (the number the           *)
(* repository's own test asserts on the real model), "linearizable" holds. *)
(***************************************************************************)
EXTENDS Consistency, Integers, FiniteSets, TLC
CONSTANTS S, C
Servers == 0..(S - 1)
Clients == S..(S + C - 1)
VARIABLES cl, val, net, tst, hist
vars == <<cl, val, net, tst, hist>>
view == <<cl, val, net, tst>>

Msg(s, d, kind, req, v) == [src |-> s, dst |-> d, kind |-> kind, req |-> req, val |-> v]
Count(m) == IF \E p \in net : p[1] = m THEN (CHOOSE p \in net : p[1] = m)[2] ELSE 0
Put1(b, m) == {p \in b : p[1] # m} \cup {<<m, (IF \E p \in b : p[1] = m THEN (CHOOSE p \in b : p[1] = m)[2] ELSE 0) + 1>>}
Take1(b, m) == LET n == (CHOOSE p \in b : p[1] = m)[2] IN {p \in b : p[1] # m} \cup (IF n > 1 THEN {<<m, n - 1>>} ELSE {})

(* the tester: done[t] = sequence of [cs, op, ret]; fl[t] = <<>> or <<[cs, op]>>; cs = set of <<peer, index of its last
   completed operation (0-based)>> *)
Snapshot(t) == {<<p, Len(tst.done[p]) - 1>> : p \in {q \in Clients : q # t /\ Len(tst.done[q]) > 0}}
Invoke_(t, op) == [tst EXCEPT !.fl[t] = <<[cs |-> Snapshot(t), op |-> op]>>]
Return_(t, ret) == [tst EXCEPT !.done[t] = Append(@, [cs |-> tst.fl[t][1].cs, op |-> tst.fl[t][1].op, ret |-> ret]), !.fl[t] = <<>>]

ValA(c) == 65 + (c - S)
Peers(s) == Servers \ {s}
Majority == ((S) \div 2) + 1
NoPhase == [k |-> "none"]
SeqLess(a, b) == a[1] < b[1] \/ (a[1] = b[1] /\ a[2] < b[2])
MaxResp(R) == CHOOSE r \in R : \A q \in R : ~SeqLess(<<r[2], r[3]>>, <<q[2], q[3]>>)
RECURSIVE PutAll(_, _)
PutAll(b, ms) == IF ms = {} THEN b ELSE LET m == CHOOSE x \in ms : TRUE IN PutAll(Put1(b, m), ms \ {m})
(* kinds: 1 Put 2 Get 3 PutOk 4 GetOk 5 Query 6 AckQuery 7 Record 8 AckRecord; clock/cid carry the seq *)
IMsg(s, d, kind, req, clock, cid, v) == [src |-> s, dst |-> d, kind |-> kind, req |-> req, val |-> v, clock |-> clock, cid |-> cid]
Init ==
  /\ cl = [c \in Clients |-> [aw |-> c, n |-> 1]]
  /\ val = [s \in Servers |-> [clock |-> 0, cid |-> s, v |-> 0, phase |-> NoPhase]]
  /\ net = {<<IMsg(c, c % S, 1, c, 0, 0, ValA(c)), 1>> : c \in Clients}
  /\ tst = [done |-> [c \in Clients |-> <<>>], fl |-> [c \in Clients |-> <<[cs |-> {}, op |-> Op("w", ValA(c))]>>]]
  /\ hist = [i \in 1..C |-> [k |-> "inv", t |-> S + i - 1, x |-> Op("w", ValA(S + i - 1))]]

ServerStep(m) ==
  /\ m.dst \in Servers
  /\ LET s == m.dst  st == val[s]  ph == st.phase  n0 == Take1(net, m) IN
     \/ /\ m.kind \in {1, 2} /\ ph.k = "none"
        /\ net' = PutAll(n0, {IMsg(s, p, 5, m.req, 0, 0, 0) : p \in Peers(s)})
        /\ val' = [val EXCEPT ![s].phase = [k |-> "p1", req |-> m.req, requester |-> m.src,
                                             write |-> IF m.kind = 1 THEN m.val ELSE -1,
                                             responses |-> {<<s, st.clock, st.cid, st.v>>}]]
     \/ /\ m.kind = 5
        /\ net' = Put1(n0, IMsg(s, m.src, 6, m.req, st.clock, st.cid, st.v))
        /\ UNCHANGED val
     \/ /\ m.kind = 6 /\ ph.k = "p1" /\ ph.req = m.req
        /\ LET resp == {r \in ph.responses : r[1] # m.src} \cup {<<m.src, m.clock, m.cid, m.val>>} IN
           IF Cardinality(resp) = Majority
           THEN LET top == MaxResp(resp)
                    isw == ph.write # -1
                    nclock == IF isw THEN top[2] + 1 ELSE top[2]
                    ncid == IF isw THEN s ELSE top[3]
                    nv == IF isw THEN ph.write ELSE top[4]
                    newer == SeqLess(<<st.clock, st.cid>>, <<nclock, ncid>>)
                IN /\ net' = PutAll(n0, {IMsg(s, p, 7, ph.req, nclock, ncid, nv) : p \in Peers(s)})
                   /\ val' = [val EXCEPT ![s] = [clock |-> IF newer THEN nclock ELSE st.clock, cid |-> IF newer THEN ncid ELSE st.cid,
                                                   v |-> IF newer THEN nv ELSE st.v,
                                                   phase |-> [k |-> "p2", req |-> ph.req, requester |-> ph.requester,
                                                              read |-> IF isw THEN -1 ELSE top[4], acks |-> {s}]]]
           ELSE net' = n0 /\ val' = [val EXCEPT ![s].phase.responses = resp]
     \/ /\ m.kind = 7
        /\ net' = Put1(n0, IMsg(s, m.src, 8, m.req, 0, 0, 0))
        /\ val' = IF SeqLess(<<st.clock, st.cid>>, <<m.clock, m.cid>>)
                  THEN [val EXCEPT ![s].clock = m.clock, ![s].cid = m.cid, ![s].v = m.val] ELSE val
     \/ /\ m.kind = 8 /\ ph.k = "p2" /\ ph.req = m.req /\ m.src \notin ph.acks
        /\ LET acks == ph.acks \cup {m.src} IN
           IF Cardinality(acks) = Majority
           THEN /\ net' = Put1(n0, IF ph.read # -1 THEN IMsg(s, ph.requester, 4, ph.req, 0, 0, ph.read) ELSE IMsg(s, ph.requester, 3, ph.req, 0, 0, 0))
                /\ val' = [val EXCEPT ![s].phase = NoPhase]
           ELSE net' = n0 /\ val' = [val EXCEPT ![s].phase.acks = acks]
  /\ UNCHANGED <<cl, tst, hist>>
ClientStep(m) ==
  /\ m.dst \in Clients /\ m.kind \in {3, 4}
  /\ LET c == m.dst  st == cl[c] IN
     /\ st.aw # 0 /\ m.req = st.aw              \* otherwise the delivery is a no-op: no transition on this network
     /\ IF m.kind = 3
        THEN LET id == (st.n + 1) * c
                 nxt == IMsg(c, (c + st.n) % S, 2, id, 0, 0, 0)       \* put_count = 1: the Get follows
                 t1 == Return_(c, Ret("wok", 0))
             IN /\ net' = Put1(Take1(net, m), nxt)
                /\ cl' = [cl EXCEPT ![c] = [aw |-> id, n |-> st.n + 1]]
                /\ tst' = [t1 EXCEPT !.fl[c] = <<[cs |-> {<<p, Len(t1.done[p]) - 1>> : p \in {q \in Clients : q # c /\ Len(t1.done[q]) > 0}},
                                                  op |-> Op("r", 0)]>>]
                /\ hist' = hist \o <<[k |-> "ret", t |-> c, x |-> Ret("wok", 0)], [k |-> "inv", t |-> c, x |-> Op("r", 0)]>>
        ELSE /\ net' = Take1(net, m)
             /\ cl' = [cl EXCEPT ![c] = [aw |-> 0, n |-> st.n + 1]]
             /\ tst' = Return_(c, Ret("rok", m.val))
             /\ hist' = Append(hist, [k |-> "ret", t |-> c, x |-> Ret("rok", m.val)])
  /\ UNCHANGED val
Next == \E p \in net : ServerStep(p[1]) \/ ClientStep(p[1])
Spec == Init /\ [][Next]_vars

Linearizable == IsLinearizable("reg", 0, hist)
(* the auxiliary history and the tester state tell the same story (per thread) *)
TesterMatchesHistory ==
  \A c \in Clients :
     /\ Len(tst.done[c]) = Cardinality({i \in Completed(hist) : hist[i].t = c})
     /\ (tst.fl[c] # <<>>) <=> (\E i \in InFlight(hist) : hist[i].t = c)
=============================================================================
