--------------------------- MODULE MCRegisterHarness ---------------------------
(* The register harness as a system: clients, an arbitrary at-most-once server, a network (set / bag / FIFO flows),
   and the history hooks.  TLC explores every interleaving (C18 at design level). *)
EXTENDS RegisterHarness, FiniteSets, TLC

CONSTANTS S, C, PutCount, NetKind, Lossy, MaxNet,
          WO      \* TRUE: write-once register harness (the server may also answer a Put with PutFail, which the client
                  \* treats like PutOk)
Clients == S..(S + C - 1)
Servers == 0..(S - 1)

VARIABLES cl,      \* cl[c] = [aw (awaited request id, 0 = none), n (op_count)]
          seen,    \* requests the server(s) took: set of <<server, src, req>>
          todo,    \* requests not answered yet: set of <<server, src, req, isPut>>
          net,     \* in-flight messages: bag (set of <<msg, count>>) or, NetKind = "ordered", set of <<src, dst, queue>>
          log      \* client-visible messages in order
vars == <<cl, seen, todo, net, log>>

Msg(s, d, kind, req, val) == [src |-> s, dst |-> d, kind |-> kind, req |-> req, val |-> val]
Count(m) == IF \E p \in net : p[1] = m THEN (CHOOSE p \in net : p[1] = m)[2] ELSE 0
Put1(b, m) == IF NetKind = "dup" THEN {p \in b : p[1] # m} \cup {<<m, 1>>}
              ELSE {p \in b : p[1] # m} \cup {<<m, (IF \E p \in b : p[1] = m THEN (CHOOSE p \in b : p[1] = m)[2] ELSE 0) + 1>>}
Take1(b, m) == LET n == (CHOOSE p \in b : p[1] = m)[2] IN {p \in b : p[1] # m} \cup (IF n > 1 THEN {<<m, n - 1>>} ELSE {})
Q(s, d) == IF \E f \in net : f[1] = s /\ f[2] = d THEN (CHOOSE f \in net : f[1] = s /\ f[2] = d)[3] ELSE <<>>
SetQ(b, s, d, q) == {f \in b : ~(f[1] = s /\ f[2] = d)} \cup (IF q = <<>> THEN {} ELSE {<<s, d, q>>})

SendM(b, m) == IF NetKind = "ordered" THEN SetQ(b, m.src, m.dst, Append(IF \E f \in b : f[1] = m.src /\ f[2] = m.dst THEN (CHOOSE f \in b : f[1] = m.src /\ f[2] = m.dst)[3] ELSE <<>>, m))
               ELSE Put1(b, m)
Deliverables == IF NetKind = "ordered" THEN {Head(f[3]) : f \in net} ELSE {p[1] : p \in net}
Consume(m) == IF NetKind = "ordered" THEN SetQ(net, m.src, m.dst, Tail(Q(m.src, m.dst)))
              ELSE IF NetKind = "dup" THEN net ELSE Take1(net, m)
NetSize(b) == IF NetKind = "ordered" THEN Cardinality(UNION {{<<f[1], f[2], i>> : i \in DOMAIN f[3]} : f \in b}) ELSE Cardinality(b)
LogOut(m) == [dir |-> 2, src |-> m.src, dst |-> m.dst, kind |-> m.kind, req |-> m.req, val |-> m.val]
LogIn(m)  == [dir |-> 1, src |-> m.src, dst |-> m.dst, kind |-> m.kind, req |-> m.req, val |-> m.val]

FirstPut(c) == Msg(c, c % S, 1, c, ValA(c, S))
RECURSIVE StartAll(_, _, _)
StartAll(cs, b, lg) == IF cs = {} THEN <<b, lg>> ELSE LET c == CHOOSE x \in cs : \A y \in cs : x <= y IN
                         StartAll(cs \ {c}, SendM(b, FirstPut(c)), Append(lg, LogOut(FirstPut(c))))
Init ==
  /\ cl = [c \in Clients |-> IF PutCount = 0 THEN [aw |-> 0, n |-> 0] ELSE [aw |-> c, n |-> 1]]
  /\ seen = {} /\ todo = {}
  /\ LET r == IF PutCount = 0 THEN <<{}, <<>>>> ELSE StartAll(Clients, {}, <<>>) IN net = r[1] /\ log = r[2]

(* delivery to a server: it takes each request once *)
ServerTakes(m) ==
  /\ m \in Deliverables /\ m.dst \in Servers /\ m.kind \in {1, 2}
  /\ net' = Consume(m)
  /\ IF <<m.dst, m.src, m.req>> \in seen THEN UNCHANGED <<seen, todo, cl, log>> /\ (NetKind = "ordered")   \* a duplicate is a no-op (ignored on unordered networks)
     ELSE /\ seen' = seen \cup {<<m.dst, m.src, m.req>>}
          /\ todo' = todo \cup {<<m.dst, m.src, m.req, m.kind = 1>>}
          /\ log' = Append(log, LogIn(m)) /\ UNCHANGED cl
(* the server answers a taken request -- at most once, with anything -- or forgets it *)
ServerAnswers ==
  \E t \in todo :
    /\ todo' = todo \ {t}
    /\ \/ UNCHANGED <<net, log>>                                                          \* never answers
       \/ \E kv \in (IF t[4] THEN {<<3, 0>>} \cup (IF WO THEN {<<5, 0>>} ELSE {}) ELSE {<<4, 0>>, <<4, 65>>, <<4, 66>>}) :
             LET m == Msg(t[1], t[2], kv[1], t[3], kv[2]) IN
             net' = SendM(net, m) /\ log' = log                                           \* replies are logged at delivery
    /\ UNCHANGED <<cl, seen>>
(* delivery to a client *)
ClientGets(m) ==
  /\ m \in Deliverables /\ m.dst \in Clients /\ m.kind \in {3, 4, 5}
  /\ LET c == m.dst  st == cl[c] IN
     IF st.aw # 0 /\ m.req = st.aw
     THEN /\ net' = IF m.kind \in {3, 5}
                    THEN LET id == (st.n + 1) * c
                             nxt == IF st.n < PutCount THEN Msg(c, (c + st.n) % S, 1, id, ValZ(c, S)) ELSE Msg(c, (c + st.n) % S, 2, id, 0)
                         IN SendM(Consume(m), nxt)
                    ELSE Consume(m)
          /\ log' = IF m.kind \in {3, 5}
                    THEN LET id == (st.n + 1) * c
                             nxt == IF st.n < PutCount THEN Msg(c, (c + st.n) % S, 1, id, ValZ(c, S)) ELSE Msg(c, (c + st.n) % S, 2, id, 0)
                         IN Append(Append(log, LogIn(m)), LogOut(nxt))
                    ELSE Append(log, LogIn(m))
          /\ cl' = [cl EXCEPT ![c] = IF m.kind \in {3, 5} THEN [aw |-> (st.n + 1) * c, n |-> st.n + 1] ELSE [aw |-> 0, n |-> st.n + 1]]
          /\ UNCHANGED <<seen, todo>>
     ELSE \* not awaited: ignored (no transition on unordered networks; consumed on an ordered one -- and then the
          \* hook still records the return)
          /\ NetKind = "ordered"
          /\ net' = Consume(m) /\ log' = Append(log, LogIn(m)) /\ UNCHANGED <<cl, seen, todo>>
DropM(m) == /\ Lossy /\ m \in Deliverables
            /\ net' = (IF NetKind = "ordered" THEN SetQ(net, m.src, m.dst, Tail(Q(m.src, m.dst))) ELSE IF NetKind = "dup" THEN {p \in net : p[1] # m} ELSE Take1(net, m))
            /\ UNCHANGED <<cl, seen, todo, log>>
Next == (\E m \in Deliverables : ServerTakes(m) \/ ClientGets(m) \/ DropM(m)) \/ ServerAnswers
Spec == Init /\ [][Next]_vars
Bound == NetSize(net) <= MaxNet

(* ---- C18 ---- *)
OneOutstanding == \A c \in Clients : Cardinality({i \in InFlight(HistOf(log)) : HistOf(log)[i].t = c}) <= 1
HistoryWellFormed == WellFormed(HistOf(log))
ClientsFollowProtocol == \A c \in Clients : ProtocolOK(log, c, S, PutCount)
AwaitingMatchesHistory ==
  \A c \in Clients : (cl[c].aw # 0) <=> (\E i \in InFlight(HistOf(log)) : HistOf(log)[i].t = c)
=============================================================================
