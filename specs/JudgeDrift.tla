------------------------------ MODULE JudgeDrift ------------------------------
(* Compares what Checker.tla predicts for a single-threaded run (visit order, discovery paths, counters) with what
   the real checker did.  A difference is SPEC-DRIFT: the code no longer follows the faithful algorithm spec step by
   step (the property-level judges decide whether that is also a violation). Env: PRED, RUNS, OUT. *)
EXTENDS Naturals, Sequences, Json, IOUtils, TLC
Pred == ndJsonDeserialize(IOEnv.PRED)
Runs == ndJsonDeserialize(IOEnv.RUNS)
PredFor(gi, st) == LET ix == {i \in DOMAIN Pred : Pred[i].gi = gi /\ Pred[i].strategy = st} IN
                   IF ix = {} THEN <<>> ELSE <<Pred[CHOOSE i \in ix : TRUE]>>
Drift == {r \in DOMAIN Runs :
           LET run == Runs[r]  p == PredFor(run.gi, run.cfg.strategy) IN
           p # <<>> /\ ~ /\ [i \in DOMAIN run.visits |-> run.visits[i].node] = p[1].visits
                          /\ {[name |-> run.done.discoveries[i].name, states |-> run.done.discoveries[i].states] : i \in DOMAIN run.done.discoveries}
                               = {p[1].discoveries[i] : i \in DOMAIN p[1].discoveries}
                          /\ run.done.total = p[1].total /\ run.done.unique = p[1].unique}
ASSUME JsonSerialize(IOEnv.OUT, [n |-> Len(Runs), compared |-> Len(Pred), drift |-> Drift])
=============================================================================
