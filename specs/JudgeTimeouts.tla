----------------------------- MODULE JudgeTimeouts -----------------------------
(* TLC as judge of timeout behaviour of real checker runs (C12) on effectively unbounded models (no visitor log,
   no graph semantics needed): bounded delay after expiry, harmlessness of an unexpired timeout. *)
EXTENDS CheckerObs, Json, IOUtils, TLC
Runs == ndJsonDeserialize(IOEnv.RUNS)
Judged ==
  [ r \in DOMAIN Runs |->
      LET run == Runs[r]
          k == [timeout_delay |-> [a |-> TimeoutDelayApplies(run), c |-> TimeoutDelayApplies(run) => TimeoutDelayOK(run)],
                timeout_harmless |-> [a |-> TimeoutHarmlessApplies(run), c |-> TimeoutHarmlessApplies(run) => TimeoutHarmlessOK(run)]]
      IN [rid |-> run.rid, failed |-> {f \in DOMAIN k : ~k[f].c}, applied |-> {f \in DOMAIN k : k[f].a}] ]
ASSUME JsonSerialize(IOEnv.OUT, [n |-> Len(Runs), judged |-> Judged])
=============================================================================
