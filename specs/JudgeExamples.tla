----------------------------- MODULE JudgeExamples -----------------------------
(* Compares what the real stateright checkers report on the shipped two-phase-commit example with what TLC found
   on Lamport's TwoPhase specification of the same protocol.  Env: RECS (one record per run), OUT. *)
EXTENDS Naturals, Sequences, Json, IOUtils, TLC
Recs == ndJsonDeserialize(IOEnv.RECS)
Bad == {i \in DOMAIN Recs :
          LET r == Recs[i] IN
          ~ IF r.symmetry
            THEN r.tlc_orbits <= r.unique /\ r.unique <= r.tlc_distinct      \* >= one state per class, never more than unreduced
                 \* a canonical representative (sorting) gives exactly one state per class, and one expansion per class
                 /\ ("canonical" \in DOMAIN r /\ r.canonical => (r.unique = r.tlc_orbits /\ r.states = r.tlc_generated))
                 /\ r.found_commit /\ r.found_abort /\ ~r.found_inconsistent
            ELSE r.unique = r.tlc_distinct                                    \* exactly the reachable states
                 /\ r.states >= r.unique
                 /\ ("tlc_generated" \in DOMAIN r => r.states = r.tlc_generated)   \* ... and exactly as many generated
                 /\ r.found_commit /\ r.found_abort /\ ~r.found_inconsistent}
ASSUME JsonSerialize(IOEnv.OUT, [n |-> Len(Recs), bad |-> Bad])
=============================================================================
