----------------------------- MODULE CheckerObs -----------------------------
(***************************************************************************)
(* What ANY correct run of a stateright checker may look like from the     *)
(* outside (visitor log + counters + discoveries after join), for a graph  *)
(* g and a configuration.  This is the trace-validation target for real    *)
(* runs of spawn_bfs / spawn_dfs / spawn_on_demand / spawn_simulation, and *)
(* the same operators are evaluated on the behaviours of the design-level  *)
(* algorithm spec Checker.tla (so design result and trace target are one   *)
(* statement).                                                             *)
(*                                                                         *)
(* run = [cfg, visits, done]:                                              *)
(*  cfg    [strategy, threads, symmetry, finish, target_states,            *)
(*          target_depth, timeout_ms, ...]                                 *)
(*  visits sequence of [node, path, acts] in the order the visitor was     *)
(*         called (total order of a mutex in the recording visitor)        *)
(*  done   [joined, join_panicked, is_done, unique, total, max_depth,      *)
(*          discoveries: seq of [name, states, acts], disc_panicked,       *)
(*          assert_panicked, spawn_panicked]                               *)
(*                                                                         *)
(* Verdict(g, run) is the set of names of the conjuncts that FAIL.  Each   *)
(* conjunct is at the strength of a property statement (see DESIGN.md):    *)
(* nothing here looks at the order of visits inside a BFS level, at which  *)
(* of two valid witnesses is kept, or at the exact depth off-by-one.       *)
(***************************************************************************)
EXTENDS Graph, HasDiscoveries, FiniteSetsExt

Exhaustive(cfg) == cfg.strategy \in {"bfs", "dfs", "ondemand"}
IsSim(cfg)      == cfg.strategy = "sim"

VisitedNodes(run) == {run.visits[i].node : i \in DOMAIN run.visits}
DiscNames(run)    == {run.done.discoveries[i].name : i \in DOMAIN run.done.discoveries}
PropNamed(g, nm)  == g.props[CHOOSE i \in DOMAIN g.props : g.props[i].name = nm]
AllDiscovered(g, run) == \A i \in DOMAIN g.props : g.props[i].name \in DiscNames(run)

(* a configured reason to stop before the frontier is empty *)
TargetReached(run) == run.cfg.target_states > 0 /\ run.done.total >= run.cfg.target_states
StopReason(g, run) ==
  \/ Matches(run.cfg.finish, DiscNames(run), g.props)
  \/ AllDiscovered(g, run)
  \/ TargetReached(run)
  \/ run.cfg.timeout_ms > 0
(* the run was allowed to, and had to, explore everything *)
Complete(g, run) ==
  /\ run.done.joined /\ ~run.done.join_panicked /\ ~run.done.spawn_panicked
  /\ Exhaustive(run.cfg)
  /\ ~StopReason(g, run)
  /\ run.cfg.target_depth = 0

DistinctInits(g) == \A i, j \in DOMAIN g.init : i # j => g.init[i] # g.init[j]

Orbit(g, s) == {t \in Reach(g) : RepOf(g, t) = RepOf(g, s)}

SumOver(S, f) == FoldSet(LAMBDA x, acc : acc + f[x], 0, S)      \* (FiniteSetsExt; iterative, sets may be large)

(* C12, timeouts.  A check with a timeout must stop within a bounded delay after expiry: the timeout thread polls
   once per second, a worker notices at the end of its current block; 4 s of slack for a loaded machine. *)
TimeoutDelayApplies(run) == run.cfg.timeout_ms > 0 /\ "expect_timeout" \in DOMAIN run.cfg /\ run.cfg.expect_timeout
TimeoutDelayOK(run) == run.done.joined /\ run.done.wall_ms <= run.cfg.timeout_ms + 1000 + 4000
(* an unexpired timeout changes neither results nor progress (ref_* = the same run without a timeout) *)
TimeoutHarmlessApplies(run) == run.cfg.timeout_ms > 0 /\ "ref_wall_ms" \in DOMAIN run.done /\ run.done.ref_wall_ms > 0
TimeoutHarmlessOK(run) ==
  /\ run.done.joined
  /\ run.done.unique = run.done.ref_unique
  /\ (run.done.wall_ms <= 5 * run.done.ref_wall_ms \/ run.done.wall_ms <= run.done.ref_wall_ms + 2000)

(* the decisions of the first simulation trace: the maximal prefix of the chooser log made with the first seed *)
FirstTrace(log) ==
  IF log = <<>> THEN <<>>
  ELSE LET n == IF \E i \in DOMAIN log : log[i].seed_lo # log[1].seed_lo \/ (i > 1 /\ log[i].k = "init")
                 THEN (CHOOSE i \in DOMAIN log : (log[i].seed_lo # log[1].seed_lo \/ (i > 1 /\ log[i].k = "init"))
                                                  /\ \A j \in 1..(i - 1) : ~(log[j].seed_lo # log[1].seed_lo \/ (j > 1 /\ log[j].k = "init"))) - 1
                 ELSE Len(log)
       IN  [i \in 1..n |-> [k |-> log[i].k, state |-> log[i].state, n |-> log[i].n, picked |-> log[i].picked]]
(* ... follow the model: the initial state is one of the in-boundary initial states; after choosing action a in
   state s the next decision is made in succ[s][a], or -- if that action is ignored or leaves the boundary -- again
   in s with one action fewer *)
FirstTraceValid(g, tr) ==
  /\ Len(tr) > 0 => (tr[1].k = "init" /\ tr[1].state \in InitB(g))
  /\ \A i \in 2..Len(tr) : tr[i].k = "act"
  /\ \A i \in 2..(Len(tr) - 1) :
        LET s == tr[i].state  sl == SuccList(g, s) IN
        /\ tr[i].n <= Len(sl) /\ tr[i].picked \in 1..tr[i].n
        /\ \/ tr[i + 1].state \in Defined(g, s) /\ InB(g, tr[i + 1].state)     \* a step was taken
           \/ tr[i + 1].state = s /\ tr[i + 1].n = tr[i].n - 1                 \* the chosen action was not taken
  /\ Len(tr) >= 2 => tr[2].state = tr[1].state

(* Each check is [a |-> antecedent holds for this run, c |-> a => consequent].      *)
(* A check with a false antecedent says nothing about the run (vacuous); the judge   *)
(* reports the set of failed checks and the set of applied (non-vacuous) ones.       *)
Checks(g, run) ==
  LET cfg   == run.cfg
      d     == run.done
      vis   == run.visits
      reach == Reach(g)
      vn    == VisitedNodes(run)
      dn    == DiscNames(run)
      comp  == Complete(g, run)
      sim   == IsSim(cfg)
      sym   == cfg.symmetry
      layers == Layers(g)
      disc(nm) == \E i \in DOMAIN d.discoveries : d.discoveries[i].name = nm
      noev  == \A i \in DOMAIN g.props : g.props[i].kind # "eventually"
      forest == IsForest(g)
      normal == d.joined /\ ~d.join_panicked /\ ~d.spawn_panicked
      Chk(a, c) == [a |-> a, c |-> a => c]
      a_once == Exhaustive(cfg) /\ DistinctInits(g) /\ Len(vis) > 0
      a_complete == comp /\ ~sym
      a_asserts == normal /\ Exhaustive(cfg) /\ cfg.finish.variant = "All" /\ cfg.target_states = 0
                   /\ cfg.timeout_ms = 0 /\ cfg.target_depth = 0 /\ (noev \/ forest) /\ ~sym
      a_evs == \E i \in DOMAIN g.props : g.props[i].kind = "eventually" /\ disc(g.props[i].name)
      a_evx == comp /\ ~sym /\ forest /\ ~noev
      a_bfs == cfg.strategy = "bfs" /\ cfg.threads = 1 /\ vn \subseteq reach /\ Len(vis) > 1
      a_short == cfg.strategy = "bfs" /\ cfg.threads = 1 /\
                   \E i \in DOMAIN d.discoveries :
                      PropNamed(g, d.discoveries[i].name).kind \in {"always", "sometimes"}
      a_stop == normal /\ Exhaustive(cfg) /\ ~sym /\ cfg.target_depth = 0 /\ vn # reach
      a_target == normal /\ cfg.target_states > 0 /\ Exhaustive(cfg) /\ ~sym /\ cfg.target_depth = 0
                  /\ cfg.timeout_ms = 0
      a_dmin == cfg.strategy = "bfs" /\ cfg.threads = 1 /\ cfg.target_depth > 0 /\ normal
                /\ ~StopReason(g, run)
  IN
  [ \* ---- C01 -------------------------------------------------------
    paths |-> Chk(Len(vis) > 0,
                 \A i \in DOMAIN vis :
                    /\ ValidPath(g, vis[i].path)
                    /\ Last(vis[i].path) = vis[i].node
                    /\ ValidActs(g, vis[i].path, vis[i].acts)),
    subset |-> Chk(Len(vis) > 0, vn \subseteq reach),
    \* the crate's own visitors: StateRecorder holds the last state of every visit (in visiting order when one
    \* thread visits, as a bag otherwise), PathRecorder the SET of visited paths (states and actions)
    recorders |-> Chk("recorded" \in DOMAIN run,
                 LET rs == run.recorded.states
                     rp == run.recorded.paths IN
                 /\ Len(rs) = Len(vis)
                 /\ IF cfg.threads = 1 THEN rs = [i \in DOMAIN vis |-> vis[i].node]
                    ELSE \A x \in {rs[i] : i \in DOMAIN rs} \cup vn :
                           Cardinality({i \in DOMAIN rs : rs[i] = x}) = Cardinality({i \in DOMAIN vis : vis[i].node = x})
                 /\ {[path |-> rp[i].path, acts |-> rp[i].acts] : i \in DOMAIN rp}
                      = {[path |-> vis[i].path, acts |-> vis[i].acts] : i \in DOMAIN vis}
                 /\ \A i, j \in DOMAIN rp : i # j => rp[i] # rp[j]),
    once |-> Chk(a_once, \A i, j \in DOMAIN vis : i # j => vis[i].node # vis[j].node),
    complete |-> Chk(a_complete,
                 /\ vn = reach
                 /\ d.unique = Cardinality(reach)
                 /\ d.total >= d.unique
                 /\ d.is_done),
    \* ---- C02 -------------------------------------------------------
    \* assert_properties on a check that is not done (asked while the workers are still exploring; is_done was false
    \* before AND after the call, and is_done is monotone) never succeeds: "succeeds exactly when ... and is_done is true"
    early_assert |-> Chk("early" \in DOMAIN run /\ ~run.early.done_after, run.early.panicked),
    verdicts |-> Chk(comp,
                 \A i \in DOMAIN g.props :
                    LET p == g.props[i] IN
                    CASE p.kind = "always"    -> disc(p.name) <=> Violated(g, p)
                      [] p.kind = "sometimes" -> disc(p.name) <=> Witnessed(g, p)
                      [] OTHER -> TRUE),
    asserts |-> Chk(a_asserts,
                 d.assert_panicked <=>
                    ~ \A i \in DOMAIN g.props :
                         LET p == g.props[i] IN
                         CASE p.kind = "always"     -> ~Violated(g, p)
                           [] p.kind = "sometimes"  -> Witnessed(g, p)
                           [] p.kind = "eventually" -> ~EvCex(g, p)),
    \* ---- C03 -------------------------------------------------------
    witness |-> Chk(Len(d.discoveries) > 0 \/ d.disc_panicked,
                 /\ ~d.disc_panicked
                 /\ \A i \in DOMAIN d.discoveries :
                      LET x == d.discoveries[i] IN
                      /\ \E k \in DOMAIN g.props : g.props[k].name = x.name
                      /\ ValidWitness(g, PropNamed(g, x.name), x.states, sim)
                      /\ ValidActs(g, x.states, x.acts)),
    \* what Checker::report writes and discovery_classification answers: the "Done." line carries the checker's counts;
    \* exactly the discoveries are listed, each with the classification that belongs to its property's expectation
    \* (always / eventually: counterexample, sometimes: example) and a fingerprint path denoting the discovery's states
    report |-> Chk("report" \in DOMAIN d /\ d.report.present,
                 LET rp == d.report
                     ClassOf(nm) == IF PropNamed(g, nm).kind = "sometimes" THEN "example" ELSE "counterexample"
                 IN /\ ~rp.panicked
                    /\ Len(rp.done_lines) = 1
                    /\ rp.done_lines[1].states = d.total /\ rp.done_lines[1].unique = d.unique /\ rp.done_lines[1].depth = d.max_depth
                    /\ Len(rp.items) = Len(d.discoveries)
                    /\ {<<rp.items[i].name, rp.items[i].nodes>> : i \in DOMAIN rp.items}
                         = {<<d.discoveries[i].name, d.discoveries[i].states>> : i \in DOMAIN d.discoveries}
                    /\ \A i \in DOMAIN rp.items : rp.items[i].classification = ClassOf(rp.items[i].name)
                    /\ \A i \in DOMAIN rp.class_of : rp.class_of[i].classification = ClassOf(rp.class_of[i].name)),
    \* ---- C11 -------------------------------------------------------
    ev_sound |-> Chk(a_evs,
                 \A i \in DOMAIN g.props :
                    (g.props[i].kind = "eventually" /\ disc(g.props[i].name)) => EvCex(g, g.props[i])),
    ev_exact |-> Chk(a_evx,
                 \A i \in DOMAIN g.props :
                    (g.props[i].kind = "eventually" /\ EvCex(g, g.props[i])) => disc(g.props[i].name)),
    \* ---- C13 -------------------------------------------------------
    bfs_order |-> Chk(a_bfs,
                 \A i \in DOMAIN vis : i > 1 =>
                    DepthIn(layers, vis[i - 1].node) <= DepthIn(layers, vis[i].node)),
    shortest |-> Chk(a_short,
                 \A i \in DOMAIN d.discoveries :
                    LET x == d.discoveries[i]  p == PropNamed(g, x.name) IN
                    p.kind \in {"always", "sometimes"} => Len(x.states) = MinWitnessDepth(g, p)),
    \* ---- C12 -------------------------------------------------------
    stop_reason |-> Chk(a_stop, StopReason(g, run)),
    target |-> Chk(a_target,
                 \/ d.total >= cfg.target_states
                 \/ vn = reach
                 \/ Matches(cfg.finish, dn, g.props) \/ AllDiscovered(g, run)),
    \* ... and the states counted towards the target are really generated in-boundary states: an upper bound of
    \* what can have been generated is one per in-boundary initial state plus one per in-boundary successor entry
    \* of every evaluated state
    target_real |-> Chk(a_target /\ vn # reach /\ ~(Matches(cfg.finish, dn, g.props) \/ AllDiscovered(g, run)),
                 Len(SelectSeq(g.init, LAMBDA s : InB(g, s)))
                   + SumOver(vn, [v \in vn |-> Len(SelectSeq(SuccList(g, v), LAMBDA t : t # 0 /\ InB(g, t)))]) >= cfg.target_states),
    \* simulation: the state counters are exactly the number of states generated (= handed to the visitor) along all
    \* traces, so a run stopped by target_state_count has really generated that many
    sim_count |-> Chk(sim /\ normal /\ ~cfg.no_visitor /\ Len(vis) > 0, d.total = Len(vis) /\ d.unique = Len(vis)),
    target_sim |-> Chk(sim /\ normal /\ ~cfg.no_visitor /\ cfg.target_states > 0 /\ cfg.timeout_ms = 0,
                 \/ Len(vis) >= cfg.target_states
                 \/ Matches(cfg.finish, dn, g.props) \/ AllDiscovered(g, run)
                 \/ InitB(g) = {}),
    depth_max |-> Chk(cfg.target_depth > 0 /\ Len(vis) > 0,
                 \A i \in DOMAIN vis : Len(vis[i].path) <= cfg.target_depth),
    depth_min |-> Chk(a_dmin,
                 \A s \in reach : DepthIn(layers, s) < cfg.target_depth => s \in vn),
    \* timeout: stops within a bounded delay after expiry (1 s poll of the timeout thread + one block + slack)
    timeout_delay |-> Chk(TimeoutDelayApplies(run), TimeoutDelayOK(run)),
    \* an unexpired timeout changes neither results nor progress (ref_* = the same run without timeout)
    timeout_harmless |-> Chk(TimeoutHarmlessApplies(run), TimeoutHarmlessOK(run)),
    \* a single-threaded simulation with a given seed replays the same first trace
    seed_replay |-> Chk(sim /\ cfg.threads = 1 /\ Len(run.chooser2) > 0,
                 FirstTrace(run.chooser) = FirstTrace(run.chooser2)),
    first_trace |-> Chk(sim /\ cfg.threads = 1 /\ Len(run.chooser) > 0, FirstTraceValid(g, FirstTrace(run.chooser))),
    \* ---- C05 -------------------------------------------------------
    joined |-> Chk(TRUE, d.joined /\ ~d.spawn_panicked),
    \* a checker thread / discoveries() / spawn must not panic on a model whose own code does not panic
    no_panic |-> Chk(g.poison = 0, ~d.join_panicked /\ ~d.spawn_panicked /\ ~d.disc_panicked),
    \* ---- C10 -------------------------------------------------------
    sym_cover |-> Chk(comp /\ sym,
                 /\ \A s \in reach : Orbit(g, s) \cap vn # {}
                 /\ Cardinality(vn) <= Cardinality(reach)
                 /\ d.unique <= Cardinality(reach))
  ]

Failed(g, run)  == LET k == Checks(g, run) IN {f \in DOMAIN k : ~k[f].c}
Applied(g, run) == LET k == Checks(g, run) IN {f \in DOMAIN k : k[f].a}

(* Why a discovery is not a witness -- used only to give violations a structural signature *)
WitnessDetail(g, run) ==
  LET d == run.done  sim == IsSim(run.cfg) IN
  (IF d.disc_panicked THEN {"discoveries_panicked"} ELSE {}) \cup
  UNION { LET x == d.discoveries[i]
              p == PropNamed(g, x.name)
          IN  IF ~ValidPath(g, x.states) THEN {"not_an_in_boundary_execution"}
              ELSE IF ~ValidActs(g, x.states, x.acts) THEN {"actions_do_not_produce_path"}
              ELSE IF p.kind = "always" /\ SatAt(p, Last(x.states)) THEN {"always_last_state_satisfies"}
              ELSE IF p.kind = "sometimes" /\ ~SatAt(p, Last(x.states)) THEN {"sometimes_last_state_not_satisfying"}
              ELSE IF p.kind = "eventually" /\ (\E k \in 1..Len(x.states) : SatAt(p, x.states[k]))
                   THEN {"eventually_path_meets_condition"}
              ELSE IF p.kind = "eventually" /\ ~ValidWitness(g, p, x.states, sim)
                   THEN {"eventually_path_not_maximal"}
              ELSE {}
        : i \in DOMAIN d.discoveries }

(* what made the run non-trivial (for the evidence counts) *)
Features(g, run) ==
  LET reach == Reach(g) IN
  [ reach |-> Cardinality(reach),
    complete |-> Complete(g, run),
    forest |-> IsForest(g),
    ndisc |-> Cardinality(DiscNames(run)),
    nvisits |-> Len(run.visits) ]
=============================================================================
