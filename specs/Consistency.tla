----------------------------- MODULE Consistency -----------------------------
(***************************************************************************)
(* Definition-level specification of linearizability and sequential        *)
(* consistency of a concurrent history against a sequential specification  *)
(* (C08, C14).  Deliberately NOT the algorithm of the testers: consistency *)
(* is the EXISTENCE of a legal total order, found here by exhaustive       *)
(* search over all orders compatible with the required precedence.         *)
(*                                                                         *)
(* A history h is a sequence of events                                     *)
(*     [k |-> "inv", t |-> thread, x |-> op]   /   [k |-> "ret", t, x |-> ret] *)
(***************************************************************************)
EXTENDS RefObjects, FiniteSets

(* index of the first ill-formed event (0 = the history is well-formed):
   an invocation by a thread that has one in flight, or a return by a thread
   that has none *)
RECURSIVE FirstBad(_, _, _)
FirstBad(h, i, busy) ==
  IF i > Len(h) THEN 0
  ELSE LET e == h[i] IN
       IF e.k = "inv" THEN IF e.t \in busy THEN i ELSE FirstBad(h, i + 1, busy \cup {e.t})
       ELSE IF e.t \notin busy THEN i ELSE FirstBad(h, i + 1, busy \ {e.t})
IllFormedAt(h) == FirstBad(h, 1, {})
WellFormed(h) == IllFormedAt(h) = 0

(* operations of a well-formed history, identified by the index of their invocation *)
OpIds(h) == {i \in 1..Len(h) : h[i].k = "inv"}
RetIdx(h, i) ==   \* index of the matching return, 0 if the operation is in flight
  LET later == {j \in (i + 1)..Len(h) : h[j].t = h[i].t} IN
  IF later = {} THEN 0 ELSE CHOOSE j \in later : \A m \in later : j <= m
Completed(h) == {i \in OpIds(h) : RetIdx(h, i) # 0}
InFlight(h)  == OpIds(h) \ Completed(h)

(* required precedence: a must be ordered before b *)
PO(h, a, b) == h[a].t = h[b].t /\ a < b                       \* program order
RT(h, a, b) == RetIdx(h, a) # 0 /\ RetIdx(h, a) < b          \* a returned before b was invoked
PredsLin(h, b) == {a \in OpIds(h) : a # b /\ (PO(h, a, b) \/ RT(h, a, b))}
PredsSC(h, b)  == {a \in OpIds(h) : a # b /\ PO(h, a, b)}

(***************************************************************************)
(* Exists a legal total order of all completed operations plus some of the *)
(* in-flight ones respecting `preds': depth-first over "which operation is *)
(* next".  mode = "lin" | "sc".                                            *)
(***************************************************************************)
Preds(mode, h, b) == IF mode = "lin" THEN PredsLin(h, b) ELSE PredsSC(h, b)

RECURSIVE Search(_, _, _, _, _)
Search(mode, kind, h, obj, done) ==
  \/ Completed(h) \subseteq done
  \/ \E o \in OpIds(h) \ done :
        /\ Preds(mode, h, o) \subseteq done
        /\ LET r == Invoke(kind, obj, h[o].x) IN
           /\ (o \in Completed(h) => r.ret = h[RetIdx(h, o)].x)
           /\ Search(mode, kind, h, r.obj, done \cup {o})

IsLinearizable(kind, init, h)  == WellFormed(h) /\ Search("lin", kind, h, init, {})
IsSeqConsistent(kind, init, h) == WellFormed(h) /\ Search("sc", kind, h, init, {})

(***************************************************************************)
(* Is `ser' (a sequence of [op, ret]) a valid serialization of h: some     *)
(* assignment of its positions to distinct operations of h, covering all   *)
(* completed ones, in an order respecting the precedence, legal for the    *)
(* sequential specification and agreeing with the recorded returns.        *)
(***************************************************************************)
RECURSIVE Explains(_, _, _, _, _, _)
Explains(mode, kind, h, obj, done, ser) ==
  IF ser = <<>> THEN Completed(h) \subseteq done
  ELSE \E o \in OpIds(h) \ done :
         /\ Preds(mode, h, o) \subseteq done
         /\ h[o].x = Head(ser).op
         /\ LET r == Invoke(kind, obj, h[o].x) IN
            /\ r.ret = Head(ser).ret
            /\ (o \in Completed(h) => h[RetIdx(h, o)].x = Head(ser).ret)
            /\ Explains(mode, kind, h, r.obj, done \cup {o}, Tail(ser))
ValidSerialization(mode, kind, init, h, ser) == WellFormed(h) /\ Explains(mode, kind, h, init, {}, ser)

(* what len() of a tester must report: completed + in-flight operations of the
   well-formed prefix *)
WFPrefix(h) == IF WellFormed(h) THEN h ELSE SubSeq(h, 1, IllFormedAt(h) - 1)
=============================================================================
