----------------------------- MODULE JudgeOnDemand -----------------------------
(* TLC-generated request sequences (OnDemand.tla) replayed into the real spawn_on_demand(): after each request the set
   of evaluated states must be the spec's, and run_to_completion must evaluate exactly Reach(g). Env: GRAPHS, RECS, OUT *)
EXTENDS Explorer, Json, IOUtils
Graphs == ndJsonDeserialize(IOEnv.GRAPHS)
Recs == ndJsonDeserialize(IOEnv.RECS)
Bad == {i \in DOMAIN Recs :
          LET r == Recs[i]  g == Graphs[r.gi] IN
          ~ /\ Len(r.steps) = Len(r.hist)
            /\ \A k \in DOMAIN r.steps : Range(r.steps[k].visited_so_far) = Range(r.hist[k])
            /\ Range(r.visited) = Reach(g) /\ Len(r.visited) = Cardinality(Reach(g)) /\ r.is_done}
ASSUME JsonSerialize(IOEnv.OUT, [n |-> Len(Recs), bad |-> Bad])
=============================================================================
