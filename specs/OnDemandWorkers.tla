--------------------------- MODULE OnDemandWorkers ---------------------------
(***************************************************************************)
(* The on-demand checker (checker/on_demand.rs) with its worker threads,   *)
(* control channels and the job market, written step by step:              *)
(*                                                                         *)
(*  - every worker owns a queue `pending', a queue `targetted', a control  *)
(*    channel and the flag wait_for_fingerprints (here mode = "wait");     *)
(*  - check_fingerprint(s) / run_to_completion put a message on EVERY      *)
(*    worker's channel (the forwarding thread);                            *)
(*  - a worker without pending jobs blocks in the market's pop (it does    *)
(*    not read its channel there: messages queue up); with pending jobs    *)
(*    and mode "wait" it blocks on its channel: a fingerprint found in its *)
(*    pending queue is moved to `targetted' and one block is run on it     *)
(*    (the block drains what was in the queue at its start, so exactly the *)
(*    requested state is evaluated; its new successors stay queued);       *)
(*    any other fingerprint is dropped; RunToCompletion switches the mode  *)
(*    for good (the block run right after the switch is empty);            *)
(*  - in mode "run" everything pending is moved to `targetted' and blocks  *)
(*    of BlockSize jobs are run;                                           *)
(*  - after every block: pending := pending o targetted, then the market   *)
(*    visit (split_and_push: idle workers get shares; a closed market      *)
(*    discards the queue).                                                 *)
(* The market is abstracted to its specification (JobMarket.tla proves the *)
(* lock-level protocol): a batch pushed is eventually taken by an idle     *)
(* worker; when every worker is idle the market closes and all return.     *)
(*                                                                         *)
(* Checked (all interleavings of W workers, every request sequence up to   *)
(* MaxReq, optionally followed by run_to_completion):                      *)
(*   OnlyRequested, EvaluatedReachable, NoDoubleEvaluation,                *)
(*   QuiescentIsSequential: whenever nothing can move any more the set of  *)
(*     evaluated states is the one OnDemand.tla (one worker, atomic        *)
(*     requests) defines -- so its request sequences can be replayed into  *)
(*     a real checker with several threads;                                *)
(*   RequestHonoured (liveness): a request for a state that is pending is  *)
(*     eventually evaluated; Completion: after run_to_completion every     *)
(*     reachable state is evaluated and all workers return.                *)
(***************************************************************************)
EXTENDS Explorer, Json, IOUtils, TLC
CONSTANTS W, MaxReq, BlockSize
Graphs == ndJsonDeserialize(IOEnv.GRAPHS)
VARIABLES gi, open, batches, pc, mode, pending, targetted, local, chan, generated, evaluated, evalCount, reqs, rtc, seqEval
vars == <<gi, open, batches, pc, mode, pending, targetted, local, chan, generated, evaluated, evalCount, reqs, rtc, seqEval>>
g == Graphs[gi]
Min2(a, b) == IF a <= b THEN a ELSE b
InitJobs == SelectSeq(g.init, LAMBDA s : InB(g, s))
Rng(q) == {q[i] : i \in DOMAIN q}

Init ==
  /\ gi \in DOMAIN Graphs
  /\ open = TRUE
  /\ batches = <<InitJobs>>
  /\ pc = [w \in W |-> "top"]
  /\ mode = [w \in W |-> "wait"]
  /\ pending = [w \in W |-> <<>>] /\ targetted = [w \in W |-> <<>>] /\ local = [w \in W |-> <<>>]
  /\ chan = [w \in W |-> <<>>]
  /\ generated = InitB(g) /\ evaluated = {} /\ evalCount = 0
  /\ reqs = <<>> /\ rtc = FALSE
  /\ seqEval = {}            \* what the one-worker specification (OnDemand.tla) has evaluated after the same requests

-----------------------------------------------------------------------------
(* the environment: the user of the checker *)
Request(s) ==
  /\ ~rtc /\ Len(reqs) < MaxReq
  /\ reqs' = Append(reqs, s)
  /\ chan' = [w \in W |-> Append(chan[w], s)]
  /\ seqEval' = IF s \in Pending(g, seqEval) THEN seqEval \cup {s} ELSE seqEval
  /\ UNCHANGED <<gi, open, batches, pc, mode, pending, targetted, local, generated, evaluated, evalCount, rtc>>
RunToCompletion ==
  /\ ~rtc /\ rtc' = TRUE
  /\ chan' = [w \in W |-> Append(chan[w], 0)]           \* 0 = the RunToCompletion message
  /\ UNCHANGED <<gi, open, batches, pc, mode, pending, targetted, local, generated, evaluated, evalCount, reqs, seqEval>>

-----------------------------------------------------------------------------
Idle == {v \in W : pc[v] = "mwait"}
(* top of the loop: pop from the market when the own queue is empty *)
Top(w) ==
  /\ pc[w] = "top"
  /\ IF pending[w] # <<>>
     THEN pc' = [pc EXCEPT ![w] = "mode"] /\ UNCHANGED <<open, batches, pending>>
     ELSE IF ~open THEN pc' = [pc EXCEPT ![w] = "done"] /\ UNCHANGED <<open, batches, pending>>
     ELSE IF batches # <<>>
          THEN /\ pending' = [pending EXCEPT ![w] = batches[Len(batches)]]
               /\ batches' = SubSeq(batches, 1, Len(batches) - 1)
               /\ pc' = [pc EXCEPT ![w] = IF batches[Len(batches)] = <<>> THEN "done" ELSE "mode"]
               /\ open' = (batches[Len(batches)] # <<>>)      \* an empty batch: pop returns nothing, the worker's Drop closes
          ELSE IF Idle \cup {w} = {v \in W : pc[v] # "done"}
               THEN \* everybody else is idle (or gone): the market closes
                    /\ open' = FALSE /\ pc' = [v \in W |-> IF v = w \/ v \in Idle THEN "done" ELSE pc[v]]
                    /\ UNCHANGED <<batches, pending>>
               ELSE pc' = [pc EXCEPT ![w] = "mwait"] /\ UNCHANGED <<open, batches, pending>>
  /\ UNCHANGED <<gi, mode, targetted, local, chan, generated, evaluated, evalCount, reqs, rtc, seqEval>>
(* an idle worker takes a batch that was pushed for it / learns that the market closed *)
MWait(w) ==
  /\ pc[w] = "mwait"
  /\ \/ /\ open /\ batches # <<>>
        /\ pending' = [pending EXCEPT ![w] = batches[Len(batches)]]
        /\ batches' = SubSeq(batches, 1, Len(batches) - 1)
        /\ pc' = [pc EXCEPT ![w] = "mode"] /\ UNCHANGED open
     \/ /\ ~open /\ pc' = [pc EXCEPT ![w] = "done"] /\ UNCHANGED <<open, batches, pending>>
  /\ UNCHANGED <<gi, mode, targetted, local, chan, generated, evaluated, evalCount, reqs, rtc, seqEval>>
(* step 0: wait for somebody to ask for work (mode "wait"), or take everything (mode "run") *)
Mode(w) ==
  /\ pc[w] = "mode"
  /\ IF mode[w] = "run"
     THEN /\ targetted' = [targetted EXCEPT ![w] = @ \o pending[w]] /\ pending' = [pending EXCEPT ![w] = <<>>]
          /\ pc' = [pc EXCEPT ![w] = "drain"] /\ UNCHANGED <<chan, mode>>
     ELSE /\ chan[w] # <<>>
          /\ chan' = [chan EXCEPT ![w] = Tail(@)]
          /\ LET m == Head(chan[w]) IN
             IF m = 0 THEN /\ mode' = [mode EXCEPT ![w] = "run"] /\ pc' = [pc EXCEPT ![w] = "drain"]
                           /\ UNCHANGED <<pending, targetted>>
             ELSE IF \E i \in DOMAIN pending[w] : pending[w][i] = m
                  THEN LET i == CHOOSE k \in DOMAIN pending[w] : pending[w][k] = m /\ \A l \in 1..(k - 1) : pending[w][l] # m IN
                       /\ targetted' = [targetted EXCEPT ![w] = Append(@, m)]
                       /\ pending' = [pending EXCEPT ![w] = SubSeq(@, 1, i - 1) \o SubSeq(@, i + 1, Len(@))]
                       /\ pc' = [pc EXCEPT ![w] = "drain"] /\ UNCHANGED mode
                  ELSE UNCHANGED <<pending, targetted, mode, pc>>          \* not mine: dropped, keep listening
  /\ UNCHANGED <<gi, open, batches, local, generated, evaluated, evalCount, reqs, rtc, seqEval>>
(* check_block: the block works on what is in the queue NOW (at most BlockSize jobs from its front) *)
Drain(w) ==
  /\ pc[w] = "drain"
  /\ LET n == Min2(BlockSize, Len(targetted[w])) IN
     /\ local' = [local EXCEPT ![w] = SubSeq(targetted[w], 1, n)]
     /\ targetted' = [targetted EXCEPT ![w] = SubSeq(@, n + 1, Len(@))]
  /\ pc' = [pc EXCEPT ![w] = "block"]
  /\ UNCHANGED <<gi, open, batches, mode, pending, chan, generated, evaluated, evalCount, reqs, rtc, seqEval>>
(* one job per step: evaluate it, generate its successors (atomic insert-if-absent), queue the new ones at the front *)
Block(w) ==
  /\ pc[w] = "block"
  /\ IF local[w] = <<>>
     THEN /\ pending' = [pending EXCEPT ![w] = @ \o targetted[w]] /\ targetted' = [targetted EXCEPT ![w] = <<>>]
          /\ pc' = [pc EXCEPT ![w] = "after"]
          /\ UNCHANGED <<local, generated, evaluated, evalCount>>
     ELSE LET s == local[w][Len(local[w])]
              fresh == SelectSeq(SuccList(g, s), LAMBDA t : t # 0 /\ InB(g, t) /\ t \notin generated)
              RECURSIVE Dedup(_, _)
              Dedup(q, seen) == IF q = <<>> THEN <<>> ELSE IF Head(q) \in seen THEN Dedup(Tail(q), seen)
                                ELSE <<Head(q)>> \o Dedup(Tail(q), seen \cup {Head(q)})
              news == Dedup(fresh, {})
              RECURSIVE Rev(_)
              Rev(q) == IF q = <<>> THEN <<>> ELSE Rev(Tail(q)) \o <<Head(q)>>
          IN /\ local' = [local EXCEPT ![w] = SubSeq(@, 1, Len(@) - 1)]
             /\ evaluated' = evaluated \cup {s} /\ evalCount' = evalCount + 1
             /\ generated' = generated \cup Rng(news)
             /\ targetted' = [targetted EXCEPT ![w] = Rev(news) \o @]        \* push_front, one successor after the other
             /\ UNCHANGED <<pending, pc>>
  /\ UNCHANGED <<gi, open, batches, mode, chan, reqs, rtc, seqEval>>
(* step 2: the market visit after every block *)
After(w) ==
  /\ pc[w] = "after"
  /\ IF ~open
     THEN pending' = [pending EXCEPT ![w] = <<>>] /\ UNCHANGED batches
     ELSE LET q == pending[w]
              pieces == 1 + Min2(Cardinality(Idle), Len(q))
              size == Len(q) \div pieces
              nb == IF size = 0 THEN 0 ELSE pieces - 1
              keep == Len(q) - nb * size
          IN /\ batches' = batches \o [k \in 1..nb |-> SubSeq(q, Len(q) - k * size + 1, Len(q) - (k - 1) * size)]
             /\ pending' = [pending EXCEPT ![w] = SubSeq(q, 1, keep)]
  /\ pc' = [pc EXCEPT ![w] = "top"]
  /\ UNCHANGED <<gi, open, mode, targetted, local, chan, generated, evaluated, evalCount, reqs, rtc, seqEval>>

WorkerStep(w) == Top(w) \/ MWait(w) \/ Mode(w) \/ Drain(w) \/ Block(w) \/ After(w)
Next == (\E s \in Nodes(g) : Request(s)) \/ RunToCompletion \/ (\E w \in W : WorkerStep(w))
Spec == Init /\ [][Next]_vars /\ \A w \in W : WF_vars(WorkerStep(w))

-----------------------------------------------------------------------------
EvaluatedReachable == evaluated \subseteq Reach(g)
OnlyRequested == ~rtc => evaluated \subseteq Rng(reqs)
NoDoubleEvaluation == evalCount = Cardinality(evaluated)
(* nothing can move any more (all workers block on an empty channel, idle in the market, or returned) *)
Quiescent == \A w \in W : ~ENABLED WorkerStep(w)
(* With one worker the outcome is exactly the sequential one.  With several workers a request can wait in the channel
   of a worker that is idle in the market and be honoured later, when a state that was not pending at the time of the
   request has become pending and was handed to that worker: the outcome is a superset (StrictlySequential is violated
   for two workers -- TLC's counterexample is the reason why real multi-threaded runs are judged with "nothing that was
   never requested is evaluated" instead of "nothing else is evaluated"). *)
QuiescentIsSequential == (Quiescent /\ ~rtc) => (seqEval \subseteq evaluated /\ (Cardinality(W) = 1 => evaluated = seqEval))
StrictlySequential == (Quiescent /\ ~rtc) => evaluated = seqEval
CompletedIsReach == (Quiescent /\ rtc) => (evaluated = Reach(g) /\ \A w \in W : pc[w] = "done")
(* every job is somewhere: generated but not evaluated states are queued exactly once *)
Held == [w \in W |-> Rng(pending[w]) \cup Rng(targetted[w]) \cup Rng(local[w])]
InMarket == UNION {Rng(batches[i]) : i \in DOMAIN batches}
NoLoss == open => (generated \ evaluated) = (UNION {Held[w] : w \in W}) \cup InMarket
(* liveness *)
(* every request that the sequential specification honours is eventually honoured (requests are finitely many) *)
RequestHonoured == <>[](seqEval \subseteq evaluated)
Completion == rtc ~> (evaluated = Reach(g) /\ \A w \in W : pc[w] = "done")
=============================================================================
