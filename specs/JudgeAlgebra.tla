------------------------------ MODULE JudgeAlgebra ------------------------------
(* TLC as judge of the real VectorClock / DenseNatMap / RewritePlan / Rewrite impls
   (C20, C10a, VectorClock part of C04).  Env: RECS, OUT. *)
EXTENDS Naturals, Sequences, FiniteSets, Json, IOUtils, TLC
VC == INSTANCE VectorClock
DM == INSTANCE DenseNatMap
SY == INSTANCE Symmetry

Recs == ndJsonDeserialize(IOEnv.RECS)
Rng(f) == {f[i] : i \in DOMAIN f}
Chk(c) == [a |-> TRUE, c |-> c]

MapItem(plan, item, nid) == [j \in DOMAIN item |-> IF j <= nid THEN SY!RewriteId(plan, item[j]) ELSE item[j]]

Checks(r) ==
  CASE r.rec = "vc_pair" ->
         [ cmp |-> Chk(r.cmp = VC!Cmp(r.a, r.b)),
           eq |-> Chk(r.eq <=> VC!EqV(r.a, r.b)),
           merge |-> Chk(VC!EqV(r.merge, VC!Merge(r.a, r.b))),
           hash_eq |-> Chk(VC!EqV(r.a, r.b) => r.stream_a = r.stream_b),           \* C20: equal clocks hash equally
           hash_ne |-> Chk(~VC!EqV(r.a, r.b) => r.stream_a # r.stream_b) ]        \* C04: distinct clocks feed distinct streams
    [] r.rec = "vc_inc" ->
         [ inc |-> Chk(VC!EqV(r.inc, VC!Inc(r.a, r.k))),
           inc_greater |-> Chk(r.cmp = "LT") ]
    [] r.rec = "dnm_from" ->
         [ from_accepts |-> Chk(r.ok <=> DM!Acceptable(r.pairs)),
           from_values |-> [a |-> r.ok /\ DM!Acceptable(r.pairs),
                            c |-> (r.ok /\ DM!Acceptable(r.pairs)) =>
                                    LET m == DM!FromPairs(r.pairs) IN
                                    /\ r.values = m /\ r.len = Len(m)
                                    /\ r.iter = DM!Iter(m)
                                    /\ \A k \in DOMAIN r.gets : r.gets[k] = DM!Get(m, k - 1)] ]
    [] r.rec = "dnm_api" ->
         [ dnm_index |-> Chk(r.index = r.m /\ r.oob_panics),                      \* total on 0..len-1, nothing beyond
           dnm_into_iter |-> Chk(r.into_iter = DM!Iter(r.m)),
           dnm_same |-> Chk(\A i \in DOMAIN r.same : r.same[i]),                  \* every construction yields the same map (==, hash)
           dnm_index_mut |-> Chk(\A k \in DOMAIN r.muts : r.muts[k] = [r.m EXCEPT ![k] = 7]),
           dnm_neq |-> Chk(\A k \in DOMAIN r.neq : r.neq[k]) ]
    [] r.rec = "dnm_insert" ->
         [ insert |-> Chk(/\ r.ok <=> DM!InsertOk(r.m, r.k)
                          /\ r.ok => /\ r.result = DM!Insert(r.m, r.k, 9)
                                     /\ r.old = DM!Get(r.m, r.k)) ]
    [] r.rec = "dnm_rewrite" ->
         [ dnm_rewrite |-> Chk(r.ok /\ r.result = DM!RewriteMap(r.plan, r.m)) ]
    [] r.rec = "plan" ->
         [ plan |-> Chk(r.plan = SY!Plan(r.vals)),
           reindex |-> Chk(r.reindex_vals = SY!Reindex(SY!Plan(r.vals), r.vals)),
           reindex_sorted |-> Chk(SY!IsSorted(r.reindex_vals)),
           \* reindexing a vector of Ids moves AND rewrites them: the pointer structure is preserved
           reindex_ids |-> Chk(LET p == SY!Plan(r.vals) IN
                               r.reindex_ids = SY!Reindex(p, [i \in DOMAIN r.ptr |-> SY!RewriteId(p, r.ptr[i])])) ]
    [] r.rec = "rewrite" ->
         LET want == [i \in DOMAIN r.input |-> MapItem(r.plan, r.input[i], r.nid)] IN
         [ rewrite |-> Chk(IF r.ordered THEN r.output = want ELSE Rng(r.output) = Rng(want) /\ Len(r.output) = Cardinality(Rng(want))),
           rewrite_last |-> [a |-> r.kind = "net_dup",
                             c |-> r.kind = "net_dup" =>
                                     r.extra.last_out = [i \in DOMAIN r.extra.last_in |-> MapItem(r.plan, r.extra.last_in[i], 3)]] ]

Judged ==
  [ i \in DOMAIN Recs |->
      LET k == Checks(Recs[i]) IN
      [idx |-> i, rec |-> Recs[i].rec, failed |-> {f \in DOMAIN k : ~k[f].c}, applied |-> {f \in DOMAIN k : k[f].a}] ]
ASSUME JsonSerialize(IOEnv.OUT, [n |-> Len(Recs), judged |-> Judged])
=============================================================================
