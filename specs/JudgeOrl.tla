-------------------------------- MODULE JudgeOrl --------------------------------
(* TLC as judge of the recorded reachable graph of real ActorModel<ActorWrapper<..>> systems (C16):
   the property predicates of OrderedReliableLink.tla on EVERY recorded state, and conformance of every
   recorded transition with the protocol spec (reported separately as drift). Env: SYSTEMS, RECS, OUT. *)
EXTENDS OrderedReliableLink, Json, IOUtils, TLC
Systems == ndJsonDeserialize(IOEnv.SYSTEMS)
Recs    == ndJsonDeserialize(IOEnv.RECS)
IsSummary(r) == "summary" \in DOMAIN r

Checks(r) ==
  LET sys  == Systems[r.sys]
      s    == OAbs(r.state)
      en   == OEnabled(sys, s)
      recT == {<<r.edges[i].a, OAbs(r.edges[i].to)>> : i \in DOMAIN r.edges}
      recI == RangeS(r.ignored)
      conf == /\ {p[1] : p \in recT} \cup recI = en
              /\ \A a \in en :
                   IF OIgnored(sys, s, a) THEN a \in recI
                   ELSE a \notin recI /\ {p[2] : p \in {q \in recT : q[1] = a}} = {NoNext(OApply(sys, s, a))}
  IN
  [ prefix |-> [a |-> TRUE, c |-> PrefixOK(sys, s)],
    acked_handed |-> [a |-> TRUE, c |-> AckedImpliesHanded(sys, s)],
    complete |-> [a |-> \A i \in OIds(sys) : s.actors[i + 1].pending = {}, c |-> CompleteOK(sys, s)],
    init |-> [a |-> r.init, c |-> r.init => s = NoNext(OInit(sys))],
    conformance |-> [a |-> r.expanded, c |-> r.expanded => conf] ]

Judged ==
  {LET k == Checks(Recs[i]) IN
     [idx |-> i, sys |-> Recs[i].sys, failed |-> {f \in DOMAIN k : ~k[f].c}, applied |-> {f \in DOMAIN k : k[f].a}]
   : i \in {j \in DOMAIN Recs : ~IsSummary(Recs[j])}}
ASSUME JsonSerialize(IOEnv.OUT, [n |-> Len(Recs), states |-> Judged])
=============================================================================
