---------------------------- MODULE JudgeRefObjects ----------------------------
(* TLC as judge of the real reference objects (C18a): invoke / is_valid_step /
   is_valid_history on every (object state, op, ret) within the bounds. *)
EXTENDS RefObjects, FiniteSets, Json, IOUtils, TLC

Recs == ndJsonDeserialize(IOEnv.RECS)

Checks(r) ==
  LET kind == r.kind
      inv  == Invoke(kind, r.obj, r.op)
      vs   == ValidStep(kind, r.obj, r.op, r.ret)
      pairs == r.pre \o <<[op |-> r.op, ret |-> r.ret]>>
  IN
  [ \* the object state recorded before the step is the one the spec reaches by invoking `pre'
    pre_state |-> [a |-> TRUE, c |-> ValidHistory(kind, InitObj(kind), r.pre) /\ ObjAfter(kind, InitObj(kind), r.pre) = r.obj],
    invoke_ret |-> [a |-> TRUE, c |-> r.invoke_ret = inv.ret],
    invoke_obj |-> [a |-> TRUE, c |-> r.invoke_obj = inv.obj],
    \* is_valid_step(op, ret) <=> invoke(op) = ret
    valid_step |-> [a |-> TRUE, c |-> r.valid_step <=> vs],
    \* ... including the resulting object state (on accepted steps)
    valid_step_obj |-> [a |-> vs, c |-> vs => r.valid_step_obj = inv.obj],
    valid_history |-> [a |-> TRUE, c |-> r.valid_history <=> ValidHistory(kind, InitObj(kind), pairs)]
  ]

Judged ==
  [ i \in DOMAIN Recs |->
      LET k == Checks(Recs[i]) IN
      [idx |-> i, failed |-> {f \in DOMAIN k : ~k[f].c}, applied |-> {f \in DOMAIN k : k[f].a}] ]

(* the harness must have covered the whole domain: count = sum over kinds of
   #prefixes * #ops * #rets *)
ASSUME JsonSerialize(IOEnv.OUT,
   [n |-> Len(Recs), judged |-> Judged,
    distinct |-> Cardinality({<<Recs[i].kind, Recs[i].pre, Recs[i].op, Recs[i].ret>> : i \in DOMAIN Recs})])
=============================================================================
