----------------------------- MODULE JudgeActors -----------------------------
(* TLC as judge of the recorded reachable graphs of real ActorModels (whole-graph
   conformance with ActorSystem.tla).  Env: SYSTEMS, RECS (ndjson), OUT. *)
EXTENDS ActorSystem, Json, IOUtils, TLC

Systems == ndJsonDeserialize(IOEnv.SYSTEMS)
Recs    == ndJsonDeserialize(IOEnv.RECS)

IsSummary(r) == "summary" \in DOMAIN r

BagOfSeq(q) == {<<q[i], Cardinality({k \in DOMAIN q : q[k] = q[i]})>> : i \in DOMAIN q}

StateChecks(r) ==
  LET sys  == Systems[r.sys]
      s    == Abs(r.state)
      en   == Enabled(sys, s)
      recT == {<<r.edges[i].a, Abs(r.edges[i].to)>> : i \in DOMAIN r.edges}
      recI == RangeS(r.ignored)
      recA == {p[1] : p \in recT} \cup recI
      \* STRICT = "1" (C15): the reference is the UNWRAPPED real actor, which takes exactly the spec's choice, so the
      \* adapters get no freedom
      free == IF IOEnv.STRICT = "1" THEN {} ELSE {a \in en : MayIgnoreOrStep(sys, s, a)}
      strictOK ==
        \A a \in en \ free :
           IF IsIgnored(sys, s, a)
           THEN a \in recI /\ ~\E p \in recT : p[1] = a
           ELSE a \notin recI /\ {p[2] : p \in {q \in recT : q[1] = a}} = {Apply(sys, s, a)}
      freeOK ==
        \A a \in free :
           \/ a \in recI /\ ~\E p \in recT : p[1] = a
           \/ a \notin recI /\ {p[2] : p \in {q \in recT : q[1] = a}} = {Apply(sys, s, a)}
  IN
  [ enabled |-> [a |-> r.expanded, c |-> r.expanded => recA = en],
    trans |-> [a |-> r.expanded /\ en # {}, c |-> r.expanded => (strictOK /\ freeOK)],
    init |-> [a |-> r.init, c |-> r.init => s = InitState(sys)],
    next_steps |-> [a |-> r.expanded, c |-> r.next_steps_ok],
    net_len |-> [a |-> TRUE, c |-> r.len = NetLen(s.net)],
    iter_deliv |-> [a |-> r.expanded, c |-> r.expanded => BagOfSeq(r.iter_deliv) = {<<e, 1>> : e \in Deliverable(s.net)}],
    iter_all |-> [a |-> r.expanded, c |-> r.expanded => (~r.iter_all_truncated /\ BagOfSeq(r.iter_all) = AllEnvs(s.net))],
    crash_budget |-> [a |-> sys.max_crashes > 0, c |-> NCrashed(s) <= sys.max_crashes],
    \* the network value is canonical: a flow that holds no message is not kept (it cannot influence anything, but it
    \* takes part in Eq/Hash of the real state: a state with such a flow is split from the one without)
    \* the handler behind every delivery / timeout / random selection, called DIRECTLY with an already-owned state (the way
    \* actor::spawn calls handlers; the model always passes a fresh borrowed one): same local state afterwards, same commands
    owned_calls |-> [a |-> "owned" \in DOMAIN r /\ Len(r.owned) > 0 /\ ("wrap" \in DOMAIN sys => sys.wrap \notin {"script", "orl"}),
                     c |-> ("owned" \in DOMAIN r /\ ("wrap" \in DOMAIN sys => sys.wrap \notin {"script", "orl"})) =>
                            \A k \in DOMAIN r.owned :
                               LET o == r.owned[k]  act == o.a  i == o.r.actor  cur == s.actors[i + 1]
                                   h == CASE act.k = "deliver" -> OnMsg(sys, i, cur, act.src, act.msg)
                                          [] act.k = "timeout" -> OnTimer(sys, i, cur, act.t)
                                          [] act.k = "random"  -> OnRandom(sys, i, cur, act.val)
                               IN /\ ~o.r.panicked
                                  /\ o.r.after = (IF h.touch THEN h.next ELSE cur)
                                  /\ o.r.cmds = h.cmds],
    \* ... and so are the pending random choices: a key without alternatives is not kept
    canonical_choices |-> [a |-> "dead_choices" \in DOMAIN r, c |-> "dead_choices" \in DOMAIN r => r.dead_choices = 0],
    canonical_net |-> [a |-> s.net.kind = "ordered", c |-> "empty_flows" \in DOMAIN r => r.empty_flows = 0],
    \* C10: representative() = image under the stable sorting permutation of the actor states.
    \* Envelopes addressed to non-existent actors are outside the permutation's domain; the code is
    \* not required to handle them (antecedent false).
    representative |-> LET endpointsOK == \A p \in AllEnvs(s.net) : p[1].src \in Ids(sys) /\ p[1].dst \in Ids(sys)
                                           /\ \A e \in s.net.last : e.src \in Ids(sys) /\ e.dst \in Ids(sys)
                       IN [a |-> r.has_rep /\ endpointsOK,
                           c |-> (r.has_rep /\ endpointsOK) => (~r.rep_panicked /\ Abs(r.rep) = RepresentativeE("wrap" \in DOMAIN sys /\ sys.wrap = "ids", s))]
  ]

(* per system: identity (C04) and the real checkers' counts (C04, C09) *)
SysChecks(si) ==
  LET rs   == {i \in DOMAIN Recs : ~IsSummary(Recs[i]) /\ Recs[i].sys = si /\ Recs[i].expanded}
      sm   == CHOOSE i \in DOMAIN Recs : IsSummary(Recs[i]) /\ Recs[i].sys = si
      sum  == Recs[sm]
      pairs == {<<Recs[i].stream, Abs(Recs[i].state)>> : i \in rs}
      nst  == Cardinality({p[2] : p \in pairs})
      nstr == Cardinality({p[1] : p \in pairs})
  IN
  [ stream_function |-> [a |-> rs # {}, c |-> Cardinality(pairs) = nst],       \* equal states feed equal streams
    stream_injective |-> [a |-> rs # {}, c |-> nstr = nst],                   \* distinct states feed distinct streams
    \* == of the real states agrees with the abstract state (each successor is compared, in both orders, with the stored
    \* real states of the most recent distinct projections and with the stored state of its own projection)
    eq_faithful |-> [a |-> rs # {}, c |-> \A i \in rs : "eq_ok" \in DOMAIN Recs[i] => Recs[i].eq_ok],
    bfs_count |-> [a |-> sum.real_counts, c |-> sum.real_counts => (sum.bfs_done /\ sum.bfs_unique = sum.known)],
    dfs_count |-> [a |-> sum.real_counts, c |-> sum.real_counts => (sum.dfs_done /\ sum.dfs_unique = sum.known)],
    \* every combination of crashed actors within the budget is a distinct recorded state (C09)
    crash_sets |-> [a |-> rs # {} /\ ~sum.truncated /\ Systems[si].max_crashes > 0,
                    c |-> (rs # {} /\ ~sum.truncated) =>
                          LET n == Len(Systems[si].actors)
                              seen == {{k \in 1..n : Recs[i].state.crashed[k]} : i \in rs}
                          IN  seen = {C \in SUBSET (1..n) : Cardinality(C) <= Systems[si].max_crashes}],
    no_panic |-> [a |-> TRUE, c |-> ~("panicked" \in DOMAIN sum)]
  ]

JudgedStates ==
  [ i \in {k \in DOMAIN Recs : ~IsSummary(Recs[k])} |->
      LET k == StateChecks(Recs[i]) IN
      [idx |-> i, sys |-> Recs[i].sys,
       failed |-> {f \in DOMAIN k : ~k[f].c},
       applied |-> {f \in DOMAIN k : k[f].a}] ]

JudgedSystems ==
  [ si \in {Recs[k].sys : k \in {k \in DOMAIN Recs : IsSummary(Recs[k])}} |->
      LET k == SysChecks(si) IN
      [sys |-> si, failed |-> {f \in DOMAIN k : ~k[f].c}, applied |-> {f \in DOMAIN k : k[f].a}] ]

ASSUME JsonSerialize(IOEnv.OUT,
         [n |-> Len(Recs),
          states |-> {JudgedStates[i] : i \in DOMAIN JudgedStates},
          systems |-> {JudgedSystems[i] : i \in DOMAIN JudgedSystems}])
=============================================================================
