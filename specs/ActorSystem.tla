---------------------------- MODULE ActorSystem ----------------------------
(***************************************************************************)
(* The semantics of stateright's ActorModel: what the transitions of an    *)
(* actor system ARE (properties C06 C07 C09 C15; reachable-state half of   *)
(* C04).  Written functionally over a system description `sys' so that one *)
(* TLC run can check many systems and so that TLC can judge every recorded *)
(* state of a real ActorModel:                                             *)
(*     recorded transitions of s  =  Trans(sys, Abs(s))                    *)
(*     recorded ignored actions   =  Ignored(sys, Abs(s))                  *)
(* By induction over the recorded graph the real model and this spec have  *)
(* the same reachable graph, so what TLC establishes about the spec's      *)
(* graph (MCActorSystem) holds for the real model of that system.          *)
(*                                                                         *)
(* sys = [actors, network, lossy, max_crashes, init_net, history, boundary]*)
(*  actors[i+1] = table of actor with Id i:                                *)
(*     start    [state, cmds]                                              *)
(*     on_msg   seq of [state, src (-1 any), msg, touch, next, cmds]       *)
(*     on_timer seq of [state, t, touch, next, cmds]                       *)
(*     on_random seq of [state, val, touch, next, cmds]                    *)
(*   first matching entry wins; no entry = the handler does nothing.       *)
(*   touch = the handler took the state by mutable reference (Cow::Owned), *)
(*   which is what the no-op rule of the code looks at.                    *)
(*  cmd = [k: send|set|cancel|choose, dst, msg, t, key, vals]              *)
(*                                                                         *)
(* A state is a record                                                     *)
(*  actors  sequence of local states                                       *)
(*  net     [kind, set, last, bag, flows]                                  *)
(*            dup:     set = set of envelopes, last = {} or {envelope}     *)
(*            nondup:  bag = set of <<envelope, count>>, count > 0         *)
(*            ordered: flows = set of <<src, dst, non-empty queue>>        *)
(*  timers  sequence of sets of timers                                     *)
(*  choices sequence of sets of <<key, vals>> (at most one per key)        *)
(*  crashed sequence of BOOLEAN                                            *)
(*  hist    sequence of integers (the history recorded by the hooks)       *)
(* Ids are 0-based as in the code; sequences are 1-based.                  *)
(***************************************************************************)
EXTENDS Naturals, Integers, Sequences, FiniteSets

N(sys) == Len(sys.actors)
Ids(sys) == 0..(N(sys) - 1)
Env(s, d, m) == [src |-> s, dst |-> d, msg |-> m]

RangeS(f) == {f[i] : i \in DOMAIN f}

-----------------------------------------------------------------------------
(* Network semantics (C07) *)

EmptyNet(kind) == [kind |-> kind, set |-> {}, last |-> {}, bag |-> {}, flows |-> {}]

BagCount(bag, e) == IF \E p \in bag : p[1] = e THEN (CHOOSE p \in bag : p[1] = e)[2] ELSE 0
BagSet(bag, e, n) == {p \in bag : p[1] # e} \cup (IF n > 0 THEN {<<e, n>>} ELSE {})
FlowQ(flows, s, d) == IF \E f \in flows : f[1] = s /\ f[2] = d
                      THEN (CHOOSE f \in flows : f[1] = s /\ f[2] = d)[3] ELSE <<>>
FlowSet(flows, s, d, q) == {f \in flows : ~(f[1] = s /\ f[2] = d)} \cup (IF q # <<>> THEN {<<s, d, q>>} ELSE {})

SendNet(net, e) ==
  CASE net.kind = "dup"     -> [net EXCEPT !.set = @ \cup {e}]
    [] net.kind = "nondup"  -> [net EXCEPT !.bag = BagSet(@, e, BagCount(@, e) + 1)]
    [] net.kind = "ordered" -> [net EXCEPT !.flows = FlowSet(@, e.src, e.dst, Append(FlowQ(@, e.src, e.dst), e.msg))]

(* envelopes that may be delivered (or dropped) next *)
Deliverable(net) ==
  CASE net.kind = "dup"     -> net.set
    [] net.kind = "nondup"  -> {p[1] : p \in net.bag}
    [] net.kind = "ordered" -> {Env(f[1], f[2], Head(f[3])) : f \in net.flows}

(* consuming one deliverable envelope: a duplicating network keeps the message
   (and remembers it as the last one delivered), the others lose one copy /
   the head of the flow *)
RemoveOne(net, e) ==
  CASE net.kind = "dup"     -> [net EXCEPT !.set = @ \ {e}]
    [] net.kind = "nondup"  -> [net EXCEPT !.bag = BagSet(@, e, BagCount(@, e) - 1)]
    [] net.kind = "ordered" -> [net EXCEPT !.flows = FlowSet(@, e.src, e.dst, Tail(FlowQ(@, e.src, e.dst)))]
DeliverNet(net, e) ==
  IF net.kind = "dup" THEN [net EXCEPT !.last = {e}] ELSE RemoveOne(net, e)
DropNet(net, e) == RemoveOne(net, e)

RECURSIVE SumSet(_, _)
SumSet(S, f) == IF S = {} THEN 0 ELSE LET x == CHOOSE y \in S : TRUE IN f[x] + SumSet(S \ {x}, f)

NetLen(net) ==
  CASE net.kind = "dup"     -> Cardinality(net.set)
    [] net.kind = "nondup"  -> SumSet(net.bag, [p \in net.bag |-> p[2]])
    [] net.kind = "ordered" -> SumSet(net.flows, [f \in net.flows |-> Len(f[3])])

(* all envelopes in flight, as a bag: set of <<envelope, count>> *)
AllEnvs(net) ==
  CASE net.kind = "dup"     -> {<<e, 1>> : e \in net.set}
    [] net.kind = "nondup"  -> net.bag
    [] net.kind = "ordered" ->
         LET envs == UNION {{Env(f[1], f[2], f[3][i]) : i \in DOMAIN f[3]} : f \in net.flows}
         IN  {<<e, Cardinality({i \in DOMAIN FlowQ(net.flows, e.src, e.dst) : FlowQ(net.flows, e.src, e.dst)[i] = e.msg})>> : e \in envs}

-----------------------------------------------------------------------------
(* History hooks *)

HistIn(sys, h, e) ==
  CASE sys.history \in {"log", "in_only"} -> h \o <<1, e.src, e.dst, e.msg>>
    [] sys.history = "count"              -> <<h[1] + 1, h[2]>>
    [] OTHER                              -> h
HistOut(sys, h, e) ==
  CASE sys.history \in {"log", "out_only"} -> h \o <<2, e.src, e.dst, e.msg>>
    [] sys.history = "count"               -> <<h[1], h[2] + 1>>
    [] OTHER                               -> h
InitHist(sys) == IF sys.history = "count" THEN <<0, 0>> ELSE <<>>

-----------------------------------------------------------------------------
(* Commands: interpreted one by one, in emission order (C06) *)

ApplyCmd(sys, s, i, c) ==
  CASE c.k = "send" ->
         LET e == Env(i, c.dst, c.msg) IN
         [s EXCEPT !.hist = HistOut(sys, @, e), !.net = SendNet(@, e)]
    [] c.k = "set"    -> [s EXCEPT !.timers[i + 1] = @ \cup {c.t}]
    [] c.k = "cancel" -> [s EXCEPT !.timers[i + 1] = @ \ {c.t}]
    [] c.k = "choose" ->
         LET others == {p \in s.choices[i + 1] : p[1] # c.key} IN
         [s EXCEPT !.choices[i + 1] = IF c.vals = <<>> THEN others ELSE others \cup {<<c.key, c.vals>>}]

RECURSIVE ApplyCmds(_, _, _, _)
ApplyCmds(sys, s, i, cmds) ==
  IF cmds = <<>> THEN s ELSE ApplyCmds(sys, ApplyCmd(sys, s, i, Head(cmds)), i, Tail(cmds))

-----------------------------------------------------------------------------
(* Handler tables *)

NoHandler(cur) == [touch |-> FALSE, next |-> cur, cmds |-> <<>>]
FirstMatch(tbl, P(_), cur) ==
  LET ix == {k \in DOMAIN tbl : P(tbl[k])} IN
  IF ix = {} THEN NoHandler(cur)
  ELSE LET k == CHOOSE k \in ix : \A j \in ix : k <= j IN [touch |-> tbl[k].touch, next |-> tbl[k].next, cmds |-> tbl[k].cmds]

OnMsg(sys, i, cur, src, msg) ==
  LET P(e) == e.state = cur /\ e.msg = msg /\ (e.src < 0 \/ e.src = src) IN FirstMatch(sys.actors[i + 1].on_msg, P, cur)
OnTimer(sys, i, cur, t) ==
  LET P(e) == e.state = cur /\ e.t = t IN FirstMatch(sys.actors[i + 1].on_timer, P, cur)
OnRandom(sys, i, cur, v) ==
  LET P(e) == e.state = cur /\ e.val = v IN FirstMatch(sys.actors[i + 1].on_random, P, cur)

-----------------------------------------------------------------------------
(* Initial state: on_start of every actor in Id order *)

RECURSIVE SendAll(_, _)
SendAll(net, envs) == IF envs = <<>> THEN net ELSE SendAll(SendNet(net, Head(envs)), Tail(envs))

RECURSIVE StartFrom(_, _, _)
StartFrom(sys, s, i) ==
  IF i >= N(sys) THEN s
  ELSE LET a  == sys.actors[i + 1]
           s1 == [s EXCEPT !.actors = Append(@, a.start.state)]
       IN  StartFrom(sys, ApplyCmds(sys, s1, i, a.start.cmds), i + 1)

InitState(sys) ==
  StartFrom(sys,
            [actors |-> <<>>,
             net |-> SendAll(EmptyNet(sys.network), sys.init_net),
             timers |-> [i \in 1..N(sys) |-> {}],
             choices |-> [i \in 1..N(sys) |-> {}],
             crashed |-> [i \in 1..N(sys) |-> FALSE],
             hist |-> InitHist(sys)],
            0)

InBoundary(sys, s) ==
  /\ (sys.boundary.net_len = 0 \/ NetLen(s.net) <= sys.boundary.net_len)
  /\ (sys.boundary.hist_len = 0 \/ Len(s.hist) <= sys.boundary.hist_len)

-----------------------------------------------------------------------------
(* Actions.  All action records have the same fields so that they compare. *)

Act(k, src, dst, msg, id, t, key, val) ==
  [k |-> k, src |-> src, dst |-> dst, msg |-> msg, id |-> id, t |-> t, key |-> key, val |-> val]
ADeliver(e)       == Act("deliver", e.src, e.dst, e.msg, 0, 0, "", 0)
ADrop(e)          == Act("drop", e.src, e.dst, e.msg, 0, 0, "", 0)
ATimeout(i, t)    == Act("timeout", 0, 0, 0, i, t, "", 0)
ACrash(i)         == Act("crash", 0, 0, 0, i, 0, "", 0)
ARandom(i, k, v)  == Act("random", 0, 0, 0, i, 0, k, v)

NCrashed(s) == Cardinality({i \in DOMAIN s.crashed : s.crashed[i]})

Enabled(sys, s) ==
     {ADrop(e) : e \in IF sys.lossy THEN Deliverable(s.net) ELSE {}}
  \cup {ADeliver(e) : e \in {e \in Deliverable(s.net) : e.dst \in Ids(sys)}}
  \cup UNION {{ATimeout(i, t) : t \in s.timers[i + 1]} : i \in Ids(sys)}
  \cup (IF NCrashed(s) < sys.max_crashes THEN {ACrash(i) : i \in {i \in Ids(sys) : ~s.crashed[i + 1]}} ELSE {})
  \cup UNION {UNION {{ARandom(i, p[1], p[2][j]) : j \in DOMAIN p[2]} : p \in s.choices[i + 1]} : i \in Ids(sys)}

(***************************************************************************)
(* Step(sys, s, a) = [ok, st]: ok = FALSE means the action is ignored (no  *)
(* transition).  One handler invocation of one actor, applied atomically.  *)
(***************************************************************************)
Yes(st) == [ok |-> TRUE, st |-> st]
No(s)   == [ok |-> FALSE, st |-> s]

(* the successor if the action is taken *)
Apply(sys, s, a) ==
  CASE a.k = "drop" -> [s EXCEPT !.net = DropNet(@, Env(a.src, a.dst, a.msg))]
    [] a.k = "deliver" ->
         LET i == a.dst
             e == Env(a.src, a.dst, a.msg)
             h == OnMsg(sys, i, s.actors[i + 1], a.src, a.msg)
             s1 == [s EXCEPT !.hist = HistIn(sys, @, e),
                             !.net = DeliverNet(@, e),
                             !.actors[i + 1] = IF h.touch THEN h.next ELSE @]
         IN  ApplyCmds(sys, s1, i, h.cmds)
    [] a.k = "timeout" ->
         LET i == a.id
             h == OnTimer(sys, i, s.actors[i + 1], a.t)
             s1 == [s EXCEPT !.timers[i + 1] = @ \ {a.t},
                             !.actors[i + 1] = IF h.touch THEN h.next ELSE @]
         IN  ApplyCmds(sys, s1, i, h.cmds)
    [] a.k = "crash" ->
         LET i == a.id IN
         [s EXCEPT !.crashed[i + 1] = TRUE, !.timers[i + 1] = {}, !.choices[i + 1] = {}]
    [] a.k = "random" ->
         LET i == a.id
             h == OnRandom(sys, i, s.actors[i + 1], a.val)
             s1 == [s EXCEPT !.choices[i + 1] = {p \in @ : p[1] # a.key},
                             !.actors[i + 1] = IF h.touch THEN h.next ELSE @]
         IN  ApplyCmds(sys, s1, i, h.cmds)

(* actions that are enabled but yield no transition *)
IsIgnored(sys, s, a) ==
  CASE a.k = "deliver" ->
         LET i == a.dst
             h == OnMsg(sys, i, s.actors[i + 1], a.src, a.msg)
         IN  \/ s.crashed[i + 1]                                   \* crashed actors stay silent (C09)
             \/ ~h.touch /\ h.cmds = <<>> /\ sys.network # "ordered"  \* no-op rule (C06)
    [] a.k = "timeout" ->
         LET h == OnTimer(sys, a.id, s.actors[a.id + 1], a.t)
         IN  ~h.touch /\ Len(h.cmds) = 1 /\ h.cmds[1].k = "set" /\ h.cmds[1].t = a.t
    [] OTHER -> FALSE

Step(sys, s, a) == IF IsIgnored(sys, s, a) THEN No(s) ELSE Yes(Apply(sys, s, a))

Ignored(sys, s) == {a \in Enabled(sys, s) : ~Step(sys, s, a).ok}
Trans(sys, s)   == {<<a, Step(sys, s, a).st>> : a \in {a \in Enabled(sys, s) : Step(sys, s, a).ok}}

(***************************************************************************)
(* Deliberate freedom (DESIGN.md, C06): where the property statement is    *)
(* silent the judge accepts either outcome.                                *)
(*  - a handler that took its state mutably but wrote the same value and   *)
(*    issued no command "changes nothing": on an unordered network the     *)
(*    delivery may or may not be a transition;                             *)
(*  - a timeout handler that only re-arms its own timer: may be ignored    *)
(*    (what the code does) or be a step to the same state.                 *)
(* MayIgnoreOrStep(sys, s, a) is TRUE for exactly these actions.           *)
(***************************************************************************)
MayIgnoreOrStep(sys, s, a) ==
  \/ /\ a.k = "deliver" /\ ~s.crashed[a.dst + 1] /\ sys.network # "ordered"
     /\ LET h == OnMsg(sys, a.dst, s.actors[a.dst + 1], a.src, a.msg) IN
        h.touch /\ h.next = s.actors[a.dst + 1] /\ h.cmds = <<>>
  \/ /\ a.k = "timeout"
     /\ LET h == OnTimer(sys, a.id, s.actors[a.id + 1], a.t) IN
        ~h.touch /\ Len(h.cmds) = 1 /\ h.cmds[1].k = "set" /\ h.cmds[1].t = a.t


-----------------------------------------------------------------------------
(***************************************************************************)
(* C10: the image of a state under a permutation of actor identities.      *)
(* plan[i+1] = new Id of actor i.  Applied CONSISTENTLY: actor slots,      *)
(* timers, random choices and crash flags move to the new index; message   *)
(* endpoints are renamed.  (Local states, message payloads and random     *)
(* values carry Ids in the "ids" systems only; the history carries none.)                                     *)
(***************************************************************************)
PId(plan, id) == IF id + 1 \in DOMAIN plan THEN plan[id + 1] ELSE id
(* emb = TRUE (systems recorded with wrap = "ids"): local states, message payloads and random values CARRY an Id, namely
   v % 4 when that is the Id of an actor; it is renamed like every other Id.  Timer values carry none (the library has no
   Rewrite bound on timers). *)
PV(plan, emb, v) == IF emb /\ (v % 4) + 1 \in DOMAIN plan THEN v - (v % 4) + PId(plan, v % 4) ELSE v
PEnvE(plan, emb, e) == Env(PId(plan, e.src), PId(plan, e.dst), PV(plan, emb, e.msg))
PEnv(plan, e) == PEnvE(plan, FALSE, e)
PSeq(plan, xs) == [p \in DOMAIN xs |-> xs[CHOOSE i \in DOMAIN plan : plan[i] = p - 1]]
PermuteE(plan, emb, s) ==
  [actors |-> PSeq(plan, [i \in DOMAIN s.actors |-> PV(plan, emb, s.actors[i])]),
   net |-> [kind |-> s.net.kind,
            set |-> {PEnvE(plan, emb, e) : e \in s.net.set},
            last |-> {PEnvE(plan, emb, e) : e \in s.net.last},
            bag |-> {<<PEnvE(plan, emb, p[1]), p[2]>> : p \in s.net.bag},
            flows |-> {<<PId(plan, f[1]), PId(plan, f[2]), [k \in DOMAIN f[3] |-> PV(plan, emb, f[3][k])]>> : f \in s.net.flows}],
   timers |-> PSeq(plan, s.timers),
   choices |-> PSeq(plan, [i \in DOMAIN s.choices |-> {<<c[1], [k \in DOMAIN c[2] |-> PV(plan, emb, c[2][k])]>> : c \in s.choices[i]}]),
   crashed |-> PSeq(plan, s.crashed),
   hist |-> s.hist]
Permute(plan, s) == PermuteE(plan, FALSE, s)
(* the stable sorting permutation of the actor states (Symmetry!Plan) *)
SortPlan(vals) ==
  [i \in DOMAIN vals |->
     Cardinality({j \in DOMAIN vals : vals[j] < vals[i]}) + Cardinality({j \in DOMAIN vals : j < i /\ vals[j] = vals[i]})]
Representative(s) == Permute(SortPlan(s.actors), s)
RepresentativeE(emb, s) == PermuteE(SortPlan(s.actors), emb, s)

-----------------------------------------------------------------------------
(* Abstraction of a JSON projection of a real state / action *)

AbsNet(j) ==
  [kind |-> j.kind,
   set |-> RangeS(j.set),
   last |-> RangeS(j.last),
   bag |-> {<<j.bag[i].env, j.bag[i].n>> : i \in DOMAIN j.bag},
   flows |-> {<<j.flows[i].src, j.flows[i].dst, j.flows[i].q>> : i \in DOMAIN j.flows}]
Abs(j) ==
  [actors |-> j.actors,
   net |-> AbsNet(j.net),
   timers |-> [i \in DOMAIN j.timers |-> RangeS(j.timers[i])],
   choices |-> [i \in DOMAIN j.choices |-> {<<j.choices[i][k].key, j.choices[i][k].vals>> : k \in DOMAIN j.choices[i]}],
   crashed |-> j.crashed,
   hist |-> j.hist]
=============================================================================
