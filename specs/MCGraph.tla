------------------------------- MODULE MCGraph -------------------------------
(***************************************************************************)
(* Graph.tla as a temporal specification: TLC itself explores every graph  *)
(* of the corpus (one behaviour family per graph index).  This makes TLC   *)
(* an independent model checker for the same models the stateright         *)
(* checkers are run on:                                                     *)
(*  - its distinct-state count must equal the sum of |Reach(g)| computed   *)
(*    by the fixpoint operator (compared by the driver) -- and that is the *)
(*    number unique_state_count() must report;                             *)
(*  - its BFS level of a state is the state's layer (C13);                 *)
(*  - if the operators say an always-property is not violated, TLC must    *)
(*    not reach a violating state, and vice versa (C02).                   *)
(***************************************************************************)
EXTENDS Graph, Json, IOUtils, TLC

Graphs == ndJsonDeserialize(IOEnv.GRAPHS)

VARIABLES gi, s
vars == <<gi, s>>

Init == /\ gi \in DOMAIN Graphs
        /\ s \in InitB(Graphs[gi])
Next == /\ s' \in SuccB(Graphs[gi], s)
        /\ UNCHANGED gi
Spec == Init /\ [][Next]_vars

InReach == s \in Reach(Graphs[gi])
\* single worker: TLC's BFS level is the layer index
LevelIsLayer == TLCGet("level") = DepthIn(Layers(Graphs[gi]), s)
\* agreement of the two model checkers on always / sometimes verdicts
AlwaysAgree ==
  \A i \in DOMAIN Graphs[gi].props :
     LET p == Graphs[gi].props[i] IN
     /\ (p.kind = "always" /\ ~Violated(Graphs[gi], p)) => SatAt(p, s)
     /\ (p.kind = "sometimes" /\ ~Witnessed(Graphs[gi], p)) => ~SatAt(p, s)
\* eventually: a state of the non-sat region that is terminal is a counterexample
EvAgree ==
  \A i \in DOMAIN Graphs[gi].props :
     LET p == Graphs[gi].props[i]  g == Graphs[gi] IN
     (p.kind = "eventually" /\ ~EvCex(g, p)) => ~(s \in EvRegion(g, p) /\ Terminal(g, s))
=============================================================================
