----------------------------- MODULE RefObjects -----------------------------
(***************************************************************************)
(* The sequential specifications shipped with stateright (C18, used by C08 *)
(* and C14): register, write-once register, vec (a stack with length).     *)
(*  kind  "reg" | "wo" | "vec"                                             *)
(*  obj   reg: value;  wo: value or 0 (= unset);  vec: sequence of values  *)
(*  op    [k, v]:  reg/wo: "w" v | "r";   vec: "push" v | "pop" | "len"    *)
(*  ret   [k, v]:  "wok" | "wfail" | "rok" v | "pushok" | "popok" v (0 =   *)
(*        None) | "lenok" n                                                *)
(***************************************************************************)
EXTENDS Naturals, Sequences

Op(k, v)  == [k |-> k, v |-> v]
Ret(k, v) == [k |-> k, v |-> v]

(* Invoke(kind, obj, op) = [obj |-> new object, ret |-> return value] *)
Invoke(kind, obj, op) ==
  CASE kind = "reg" ->
         IF op.k = "w" THEN [obj |-> op.v, ret |-> Ret("wok", 0)]
                       ELSE [obj |-> obj, ret |-> Ret("rok", obj)]
    [] kind = "wo" ->
         IF op.k = "w"
         THEN IF obj = 0 \/ obj = op.v THEN [obj |-> op.v, ret |-> Ret("wok", 0)]
                                       ELSE [obj |-> obj, ret |-> Ret("wfail", 0)]
         ELSE [obj |-> obj, ret |-> Ret("rok", obj)]
    [] kind = "vec" ->
         CASE op.k = "push" -> [obj |-> Append(obj, op.v), ret |-> Ret("pushok", 0)]
           [] op.k = "pop"  -> IF obj = <<>> THEN [obj |-> obj, ret |-> Ret("popok", 0)]
                               ELSE [obj |-> SubSeq(obj, 1, Len(obj) - 1), ret |-> Ret("popok", obj[Len(obj)])]
           [] op.k = "len"  -> [obj |-> obj, ret |-> Ret("lenok", Len(obj))]

(* checking a step against an expected return = invoking and comparing *)
ValidStep(kind, obj, op, ret) == Invoke(kind, obj, op).ret = ret

(* is_valid_history: the pairs are exactly what invoking from obj yields *)
RECURSIVE ValidHistory(_, _, _)
ValidHistory(kind, obj, pairs) ==
  IF pairs = <<>> THEN TRUE
  ELSE LET r == Invoke(kind, obj, Head(pairs).op) IN
       r.ret = Head(pairs).ret /\ ValidHistory(kind, r.obj, Tail(pairs))

(* the object after a valid history *)
RECURSIVE ObjAfter(_, _, _)
ObjAfter(kind, obj, pairs) ==
  IF pairs = <<>> THEN obj ELSE ObjAfter(kind, Invoke(kind, obj, Head(pairs).op).obj, Tail(pairs))

InitObj(kind) == IF kind = "vec" THEN <<>> ELSE 0

(* alphabets over values 1..V *)
Ops(kind, V) ==
  IF kind = "vec" THEN {Op("push", v) : v \in 1..V} \cup {Op("pop", 0), Op("len", 0)}
  ELSE {Op("w", v) : v \in 1..V} \cup {Op("r", 0)}
Rets(kind, V, L) ==
  CASE kind = "reg" -> {Ret("wok", 0)} \cup {Ret("rok", v) : v \in 0..V}
    [] kind = "wo"  -> {Ret("wok", 0), Ret("wfail", 0)} \cup {Ret("rok", v) : v \in 0..V}
    [] kind = "vec" -> {Ret("pushok", 0)} \cup {Ret("popok", v) : v \in 0..V} \cup {Ret("lenok", n) : n \in 0..L}
=============================================================================
