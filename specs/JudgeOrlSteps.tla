----------------------------- MODULE JudgeOrlSteps -----------------------------
(* TLC as judge of link-wrapped actors driven DIRECTLY (handler calls on persistent owned states, as the UDP runtime
   makes them) along random schedules over a lossy duplicating network: every recorded step must be the protocol's
   (OrderedReliableLink!OApply), and the C16 predicates must hold in every state reached.  Env: SYSTEMS, RECS, OUT. *)
EXTENDS OrderedReliableLink, Json, IOUtils, TLC
ASSUME TLCSet(1, ndJsonDeserialize(IOEnv.SYSTEMS)) /\ TLCSet(2, ndJsonDeserialize(IOEnv.RECS))
Systems == TLCGet(1)
Recs    == TLCGet(2)

Checks(r) ==
  IF "panicked" \in DOMAIN r THEN [no_panic |-> [a |-> TRUE, c |-> FALSE]]
  ELSE
  LET sys == Systems[r.sys]
      s   == OAbs(r.from)
      t   == OAbs(r.to)
      exp == IF r.init THEN OInit(sys) ELSE OApply(sys, s, r.a)
  IN
  [ no_panic |-> [a |-> TRUE, c |-> TRUE],
    \* the action taken by the driver is one the protocol offers, and the step is the protocol's step
    step |-> [a |-> ~r.init, c |-> ~r.init => (r.a \in OEnabled(sys, s) /\ t.actors = NoNext(exp).actors /\ t.net.set = exp.net.set)],
    init |-> [a |-> r.init, c |-> r.init => (t.actors = NoNext(exp).actors /\ t.net.set = exp.net.set)],
    prefix |-> [a |-> TRUE, c |-> PrefixOK(sys, t)],
    acked_handed |-> [a |-> TRUE, c |-> AckedImpliesHanded(sys, t)],
    complete |-> [a |-> \A i \in OIds(sys) : t.actors[i + 1].pending = {}, c |-> CompleteOK(sys, t)] ]

Judged ==
  {LET k == Checks(Recs[i]) IN
     [idx |-> i, sys |-> Recs[i].sys, failed |-> {f \in DOMAIN k : ~k[f].c}, applied |-> {f \in DOMAIN k : k[f].a}]
   : i \in DOMAIN Recs}
ASSUME JsonSerialize(IOEnv.OUT, [n |-> Len(Recs), states |-> Judged])
=============================================================================
