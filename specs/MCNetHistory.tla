---------------------------- MODULE MCNetHistory ----------------------------
(***************************************************************************)
(* C07 at design level: the transport guarantees of each network kind,     *)
(* stated over HISTORY variables (what was sent, delivered, dropped) and   *)
(* checked by TLC over every interleaving of sends, deliveries and drops   *)
(* that the actor systems of the corpus admit.                             *)
(*                                                                         *)
(*  ordered : per directed flow, consumed (delivered or dropped) messages  *)
(*            followed by the queued ones are exactly the sent sequence -- *)
(*            in order, nothing duplicated, nothing lost silently;         *)
(*  nondup  : per envelope  #sent = #delivered + #dropped + #in flight;    *)
(*  dup     : an envelope is in flight iff it was sent since it was last   *)
(*            dropped (redelivery allowed, never after a drop);            *)
(*  a message is delivered only if it was sent (or initially present).     *)
(* History variables multiply states, so this runs under a bound on the    *)
(* number of sends and is separate from MCActorSystem (the count oracle).  *)
(***************************************************************************)
EXTENDS ActorSystem, Json, IOUtils, TLC

Systems == ndJsonDeserialize(IOEnv.SYSTEMS)
MaxSent == 6
MaxCons == 7

VARIABLES si, st, sent, dlv, drp, live, sentq, cons
vars == <<si, st, sent, dlv, drp, live, sentq, cons>>
sys == Systems[si]

BagAdd(b, e) == BagSet(b, e, BagCount(b, e) + 1)
RECURSIVE BagAddAll(_, _)
BagAddAll(b, es) == IF es = <<>> THEN b ELSE BagAddAll(BagAdd(b, Head(es)), Tail(es))
Total(b) == SumSet(b, [p \in b |-> p[2]])

FlowGet(F, s, d) == FlowQ(F, s, d)
FlowApp(F, e) == FlowSet(F, e.src, e.dst, Append(FlowQ(F, e.src, e.dst), e.msg))
RECURSIVE FlowAppAll(_, _)
FlowAppAll(F, es) == IF es = <<>> THEN F ELSE FlowAppAll(FlowApp(F, Head(es)), Tail(es))

SendsOf(cmds, i) ==
  LET RECURSIVE G(_) G(c) == IF c = <<>> THEN <<>> ELSE
         (IF Head(c).k = "send" THEN <<Env(i, Head(c).dst, Head(c).msg)>> ELSE <<>>) \o G(Tail(c))
  IN G(cmds)
(* envelopes sent by the handler that runs for action a in state s *)
SentBy(s, a) ==
  CASE a.k = "deliver" -> SendsOf(OnMsg(sys, a.dst, s.actors[a.dst + 1], a.src, a.msg).cmds, a.dst)
    [] a.k = "timeout" -> SendsOf(OnTimer(sys, a.id, s.actors[a.id + 1], a.t).cmds, a.id)
    [] a.k = "random"  -> SendsOf(OnRandom(sys, a.id, s.actors[a.id + 1], a.val).cmds, a.id)
    [] OTHER -> <<>>
RECURSIVE StartSends(_)
StartSends(i) == IF i >= N(sys) THEN <<>> ELSE SendsOf(sys.actors[i + 1].start.cmds, i) \o StartSends(i + 1)

Init ==
  /\ si \in DOMAIN Systems
  /\ st = InitState(sys)
  /\ InBoundary(sys, st)
  /\ LET es == sys.init_net \o StartSends(0) IN
     /\ sent = BagAddAll({}, es)
     /\ live = RangeS(es)
     /\ sentq = FlowAppAll({}, es)
  /\ dlv = {} /\ drp = {} /\ cons = {}

Next ==
  /\ UNCHANGED si
  /\ \E a \in Enabled(sys, st) :
       LET r == Step(sys, st, a)
           e == Env(a.src, a.dst, a.msg)
           es == SentBy(st, a)
       IN
       /\ r.ok
       /\ st' = r.st
       /\ InBoundary(sys, st')
       /\ sent' = BagAddAll(sent, es)
       /\ sentq' = FlowAppAll(sentq, es)
       /\ dlv' = IF a.k = "deliver" THEN BagAdd(dlv, e) ELSE dlv
       /\ drp' = IF a.k = "drop" THEN BagAdd(drp, e) ELSE drp
       /\ cons' = IF a.k \in {"deliver", "drop"} THEN FlowApp(cons, e) ELSE cons
       /\ live' = (IF a.k = "drop" THEN live \ {e} ELSE live) \cup RangeS(es)
Spec == Init /\ [][Next]_vars

Bound == Total(sent) <= MaxSent /\ Total(dlv) + Total(drp) <= MaxCons

OnlySentIsDelivered == \A p \in dlv \cup drp : BagCount(sent, p[1]) > 0
OrderedInv ==
  sys.network = "ordered" =>
     \A f \in sentq : f[3] = FlowQ(cons, f[1], f[2]) \o FlowQ(st.net.flows, f[1], f[2])
NonDupInv ==
  sys.network = "nondup" =>
     \A p \in sent : p[2] = BagCount(dlv, p[1]) + BagCount(drp, p[1]) + BagCount(st.net.bag, p[1])
DupInv ==
  sys.network = "dup" => st.net.set = live
DropsOnlyLossy == drp # {} => sys.lossy
NoSilentLoss ==
  \* every envelope ever sent is still in flight or was consumed by an explicit step
  \A p \in sent :
     \/ \E q \in AllEnvs(st.net) : q[1] = p[1]
     \/ BagCount(dlv, p[1]) + BagCount(drp, p[1]) > 0
=============================================================================
