------------------------------ MODULE JudgeIdAddr ------------------------------
(* TLC as judge of the real From<Id> for SocketAddrV4 / From<SocketAddrV4> for Id (C17) *)
EXTENDS IdAddr, FiniteSets, Json, IOUtils, TLC
Recs == ndJsonDeserialize(IOEnv.RECS)
Bad == {i \in DOMAIN Recs :
          LET r == Recs[i]  d == Decode(r.hi, r.lo) IN
          ~ /\ r.ip = d.ip /\ r.port = d.port                                  \* Id -> address
            /\ r.back_hi = r.hi /\ r.back_lo = r.lo                            \* ... and back: identity on 48-bit ids
            /\ [hi |-> r.id2_hi, lo |-> r.id2_lo] = Encode(r.ip, r.port)       \* address -> Id
            /\ RoundTripId(r.hi, r.lo) /\ RoundTripAddr(r.ip, r.port)}         \* spec-level round trips on the same values
(* injectivity on the sampled ids: distinct ids give distinct addresses *)
Inj == Cardinality({<<Recs[i].ip, Recs[i].port>> : i \in DOMAIN Recs}) = Cardinality({<<Recs[i].hi, Recs[i].lo>> : i \in DOMAIN Recs})
ASSUME JsonSerialize(IOEnv.OUT, [n |-> Len(Recs), bad |-> Bad, injective |-> Inj])
=============================================================================
